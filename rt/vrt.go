// Package zz_vrt is the harness runtime of the gosym checker (/verif/engine).
//
// Under the symbolic interpreter every function below is intercepted: Bool/Int/... return fresh
// solver variables, Assume/Assert add to or query the path condition, Yield is a scheduling point.
// Natively (replay of a counterexample with `go test -overlay`) the same calls read the concrete
// values of the counterexample named by $VERIF_CEX, so that a harness *is* its own replay test.
package zz_vrt

import (
	"encoding/json"
	"fmt"
	"os"
	"runtime"
	"runtime/debug"
	"sort"
	"strconv"
	"strings"
	"sync"
	"testing"
	"time"
)

type cexFile struct {
	Harness string         `json:"harness"`
	Kind    string         `json:"kind"`
	Label   string         `json:"label"`
	Inputs  map[string]any `json:"inputs"`
	Sched   []int          `json:"sched"`
}

var (
	mu      sync.Mutex
	cex     cexFile
	loaded  bool
	counts  = map[string]int{}
	obs     []string
	reached []string
	tierVal = -1
)

type assumeFailed struct{}
type assertFailed struct{ label string }

func load() {
	if loaded {
		return
	}
	loaded = true
	cex.Inputs = map[string]any{}
	p := os.Getenv("VERIF_CEX")
	if p == "" {
		return
	}
	b, err := os.ReadFile(p)
	if err != nil {
		panic("vrt: cannot read VERIF_CEX: " + err.Error())
	}
	if err := json.Unmarshal(b, &cex); err != nil {
		panic("vrt: bad VERIF_CEX: " + err.Error())
	}
	if cex.Inputs == nil {
		cex.Inputs = map[string]any{}
	}
}

func uname(name string) string {
	k := counts[name]
	counts[name] = k + 1
	if k == 0 {
		return name
	}
	return fmt.Sprintf("%s#%d", name, k)
}

func lookup(name string) (any, bool) {
	mu.Lock()
	defer mu.Unlock()
	load()
	v, ok := cex.Inputs[uname(name)]
	return v, ok
}

func num(name string) (float64, uint64, int64) {
	v, ok := lookup(name)
	if !ok {
		return 0, 0, 0
	}
	switch x := v.(type) {
	case float64:
		return x, uint64(x), int64(x)
	case string:
		// large integers are stored as decimal strings
		if u, err := strconv.ParseUint(x, 10, 64); err == nil {
			return float64(u), u, int64(u)
		}
		if i, err := strconv.ParseInt(x, 10, 64); err == nil {
			return float64(i), uint64(i), i
		}
		if f, err := strconv.ParseFloat(x, 64); err == nil {
			return f, uint64(f), int64(f)
		}
	case bool:
		if x {
			return 1, 1, 1
		}
	}
	return 0, 0, 0
}

func Bool(name string) bool {
	v, ok := lookup(name)
	if !ok {
		return false
	}
	b, _ := v.(bool)
	return b
}
func Int(name string) int       { _, _, i := num(name); return int(i) }
func Int64(name string) int64   { _, _, i := num(name); return i }
func Int32(name string) int32   { _, _, i := num(name); return int32(i) }
func Int16(name string) int16   { _, _, i := num(name); return int16(i) }
func Int8(name string) int8     { _, _, i := num(name); return int8(i) }
func Uint(name string) uint     { _, u, _ := num(name); return uint(u) }
func Uint64(name string) uint64 { _, u, _ := num(name); return u }
func Uint32(name string) uint32 { _, u, _ := num(name); return uint32(u) }
func Uint16(name string) uint16 { _, u, _ := num(name); return uint16(u) }
func Uint8(name string) uint8   { _, u, _ := num(name); return uint8(u) }
func Byte(name string) byte     { _, u, _ := num(name); return byte(u) }
func Float64(name string) float64 {
	f, _, _ := num(name)
	return f
}

// String returns an arbitrary string.
func String(name string) string {
	v, ok := lookup(name)
	if !ok {
		return ""
	}
	s, _ := v.(string)
	return s
}

// Bytes returns a string of exactly n arbitrary bytes.
func Bytes(name string, n int) string {
	mu.Lock()
	load()
	nm := uname(name)
	b := make([]byte, n)
	for i := range b {
		if v, ok := cex.Inputs[fmt.Sprintf("%s!%d", nm, i)]; ok {
			switch x := v.(type) {
			case float64:
				b[i] = byte(x)
			case string:
				u, _ := strconv.ParseUint(x, 10, 8)
				b[i] = byte(u)
			}
		}
	}
	mu.Unlock()
	return string(b)
}

// IntRange returns an arbitrary int in [lo,hi].
func IntRange(name string, lo, hi int) int {
	v := Int(name)
	if v < lo || v > hi {
		if _, ok := cex.Inputs[name]; ok {
			panic(assumeFailed{})
		}
		return lo
	}
	return v
}

// Concrete returns x, which must lie in [lo,hi], as a concrete value: under the interpreter the loop
// forks once per feasible value, so that code which needs a concrete number (a make() size) gets one.
func Concrete(x, lo, hi int) int {
	for v := lo; v <= hi; v++ {
		if x == v {
			return v
		}
	}
	panic(assumeFailed{})
}

// Choose returns an arbitrary value in [0,n); the interpreter explores every one of them on
// separate paths (the value stays concrete).
func Choose(name string, n int) int {
	v := Int(name)
	if v < 0 || v >= n {
		return 0
	}
	return v
}

func Assume(b bool) {
	if !b {
		panic(assumeFailed{})
	}
}

func Assert(b bool, label string) {
	if !b {
		panic(assertFailed{label})
	}
}

// Reach marks a point a check wants to see reached; natively the labels are recorded for conformance runs.
func Reach(label string) {
	mu.Lock()
	reached = append(reached, label)
	mu.Unlock()
}

// Yield is a scheduling point for the interpreter; natively it yields the processor.
func Yield() { runtime.Gosched() }

// WaitQuiescent lets time pass until nothing else can run: natively it sleeps d (keep it short); under the
// interpreter it waits on a timer that fires only when every other thread is blocked and every shorter timer
// has fired.
func WaitQuiescent(d time.Duration) { time.Sleep(d) }

// Symbolic reports whether the harness runs under the symbolic interpreter.
func Symbolic() bool { return false }

// Tier is 0 for quick, 1 for thorough.
func Tier() int {
	if tierVal < 0 {
		tierVal = 0
		if os.Getenv("VERIF_TIER") == "thorough" {
			tierVal = 1
		}
	}
	return tierVal
}

func Trace(args ...any) {
	if os.Getenv("VERIF_TRACE") != "" {
		fmt.Fprintln(os.Stderr, append([]any{"vrt.Trace:"}, args...)...)
	}
}

// Obs records an observation compared between native and interpreted runs (conformance mode).
func Obs(name string, v any) {
	mu.Lock()
	obs = append(obs, fmt.Sprintf("obs %s=%v", name, v))
	mu.Unlock()
}

func IsConcrete(v any) bool { return true }

// Run executes a harness natively as a test. An assertion failure (or a panic) fails the test
// with a line starting "VERIF-ASSERT"; a failed assumption skips it.
func Run(t *testing.T, h func()) {
	if p := os.Getenv("VERIF_CEX_LIST"); p != "" {
		runList(t, h, p)
		return
	}
	mu.Lock()
	loaded = false
	counts = map[string]int{}
	obs = nil
	mu.Unlock()
	done := make(chan any, 1)
	var stack []byte
	go func() {
		defer func() {
			r := recover()
			if r != nil {
				stack = debug.Stack()
			}
			done <- r
		}()
		h()
	}()
	r := <-done
	if p := os.Getenv("VERIF_OBS"); p != "" {
		f, err := os.Create(p)
		if err == nil {
			for _, o := range obs {
				fmt.Fprintln(f, o)
			}
			f.Close()
		}
	}
	switch x := r.(type) {
	case nil:
		t.Log("VERIF-OK harness completed")
	case assumeFailed:
		t.Skip("VERIF-ASSUME assumption failed")
	case assertFailed:
		t.Fatalf("VERIF-ASSERT %s", x.label)
	default:
		t.Fatalf("VERIF-ASSERT panic: %v\n%s", x, stack)
	}
}

// runList is the conformance mode: the harness is run once per input set of the list (completed sample paths of
// the symbolic exploration, with the solver's model as inputs) and the outcome of each run is printed for the
// engine to compare with what the interpreter saw on that path.
func runList(t *testing.T, h func(), path string) {
	b, err := os.ReadFile(path)
	if err != nil {
		t.Fatalf("vrt: cannot read VERIF_CEX_LIST: %v", err)
	}
	var list []cexFile
	if err := json.Unmarshal(b, &list); err != nil {
		t.Fatalf("vrt: bad VERIF_CEX_LIST: %v", err)
	}
	for i, item := range list {
		mu.Lock()
		cex = item
		if cex.Inputs == nil {
			cex.Inputs = map[string]any{}
		}
		loaded = true
		counts = map[string]int{}
		obs, reached = nil, nil
		mu.Unlock()
		done := make(chan any, 1)
		go func() {
			defer func() { done <- recover() }()
			h()
		}()
		status := ""
		select {
		case r := <-done:
			switch x := r.(type) {
			case nil:
				status = "OK"
			case assumeFailed:
				status = "ASSUME"
			case assertFailed:
				status = "ASSERT:" + x.label
			default:
				status = fmt.Sprintf("PANIC:%v", x)
			}
		case <-time.After(60 * time.Second):
			fmt.Printf("VERIF-CONF %d TIMEOUT reach=\n", i)
			return // the stuck run still owns the package state: stop here
		}
		mu.Lock()
		var rs []string
		dup := map[string]bool{}
		for _, l := range reached {
			if !dup[l] {
				dup[l] = true
				rs = append(rs, l)
			}
		}
		mu.Unlock()
		sort.Strings(rs)
		fmt.Printf("VERIF-CONF %d %s reach=%s\n", i, strings.ReplaceAll(status, "\n", " "), strings.Join(rs, ","))
	}
}
