#!/bin/bash
# usage: tools/runall.sh [quick|thorough] [ids...]   runs the registered checks on /repo's working tree, two at a time
cd "$(dirname "$0")/.."
tier="${1:-quick}"; shift
ids=("$@")
if [ ${#ids[@]} -eq 0 ]; then
  ids=($(python3 -c "import json;print(' '.join(c['property_id'] for c in json.load(open('MANIFEST.json'))['checks']))"))
fi
mkdir -p /tmp/verif-runall
printf '%s\n' "${ids[@]}" | xargs -P 2 -I{} bash -c "s=\$(date +%s); ./check {} --tier $tier > /tmp/verif-runall/{}.$tier.log 2>&1; rc=\$?; echo \"{} rc=\$rc wall=\$((\$(date +%s)-s))s\""
