#!/usr/bin/env python3
"""Regenerates /verif/MANIFEST.json from harness/<id>/config.json and not_applicable.json."""
import json, os, sys
root = os.path.dirname(os.path.dirname(os.path.abspath(__file__)))
props = [json.loads(l)["id"] for l in open(os.path.join(root, "properties.jsonl"))]
na = json.load(open(os.path.join(root, "not_applicable.json")))
checks, not_app = [], []
for pid in props:
    cfgp = os.path.join(root, "harness", pid, "config.json")
    if os.path.exists(cfgp) and pid not in na.get("force", {}):
        c = json.load(open(cfgp))
        if c.get("registered", True):
            checks.append({
                "property_id": pid,
                "quick_cmd": f"./check {pid} --tier quick",
                "thorough_cmd": f"./check {pid} --tier thorough",
                "evidence_file": f"/verif/evidence/{pid}.json",
                "replay_cmd_template": f"./check {pid} --replay {{path}}",
                "engine": "gosym",
                "level_claimed": {"category": c.get("level", "other"), "text": c["level_text"], "design_ref": f"DESIGN.md section 4 ({pid})"},
                "level_note": c["level_note"],
                "technique": c["technique"],
            })
            continue
    reason = na["reasons"].get(pid)
    if reason is None:
        sys.exit(f"no config and no not_applicable reason for {pid}")
    not_app.append({"property_id": pid, "reason": reason})
m = {
    "version": 1,
    "setup_cmd": "mkdir -p bin evidence/cex && cd engine && GOFLAGS=-mod=mod GOPROXY=off GOSUMDB=off GOTOOLCHAIN=local go build -o ../bin/gosym . && cd .. && ./tools/warm.sh",
    "hooks": {
        "guard": "verif",
        "enable": "no source change in /repo: harnesses (//go:build verif) and the zz_vrt runtime are injected with go/packages Overlay and `go test -tags verif -overlay`",
        "baseline_off_cmd": "cd /repo && go build ./... && go test -vet=off -count=1 ./...",
        "source_commits": [],
        "add_only": True,
    },
    "engines": [{
        "name": "gosym", "path": "/verif/engine",
        "serves_properties": [c["property_id"] for c in checks],
        "kind_free_text": "symbolic interpreter for Go SSA (golang.org/x/tools/go/ssa v0.29.0) emitting SMT-LIB2 to persistent z3 processes; stateless depth-first path exploration with solver-decided branching, cooperative scheduler for goroutines, native replay of counterexamples through go test -overlay",
    }],
    "checks": checks,
    "not_applicable": not_app,
    "notes": "Every check regenerates its encoding from /repo's working tree on each run. Exit 0 = held within the stated bounds; exit 1 + VIOLATION line = counterexample reproduced against the real build; exit 2 = inconclusive (unsupported construct, budget, vacuity) and nothing is claimed.",
}
json.dump(m, open(os.path.join(root, "MANIFEST.json"), "w"), indent=1)
print("checks:", [c["property_id"] for c in checks], "not_applicable:", [n["property_id"] for n in not_app])
