#!/bin/bash
# usage: tools/seedmatrix.sh [seed ids...]   re-runs every stored seed against the check named in its meta.json
# (scratch worktrees, /repo untouched) and compares the outcome with meta.json's "expected" (caught|missed).
cd "$(dirname "$0")/.."
ids=("$@"); [ ${#ids[@]} -eq 0 ] && ids=($(ls seeded))
./check SMOKE-none >/dev/null 2>&1 # builds bin/gosym if needed
export GOSYM_BIN=$(mktemp /tmp/gosym-matrix-XXXXXX); cp bin/gosym "$GOSYM_BIN"; chmod 755 "$GOSYM_BIN"; trap 'rm -f "$GOSYM_BIN"' EXIT
run() {
  s="$1"; chk=$(jq -r .check seeded/$s/meta.json); exp=$(jq -r .expected seeded/$s/meta.json)
  tools/tryseed.sh "$chk" "seeded/$s/patch.diff" > /tmp/seedmatrix.$s.log 2>&1; rc=$?
  case $rc in 1) got=caught;; 0) got=missed;; *) got="inconclusive($rc)";; esac
  [ "$got" = "$exp" ] && echo "$s check=$chk $got (as recorded)" || echo "$s check=$chk $got BUT RECORDED $exp"
  rm -f /tmp/seedmatrix.$s.log
}
export -f run
printf '%s\n' "${ids[@]}" | xargs -P 3 -I{} bash -c 'run {}'
