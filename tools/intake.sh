#!/bin/bash
# usage: tools/intake.sh <property> <src-dir with patch.diff demo_test.go notes.md> <N> [check]
# stores a seed produced by a sub-agent as seeded/<property>-m<N>, confirms it (tools/confirmseed.sh in /tmp/wt-<property>)
# and runs the check against it (tools/tryseed.sh); prints what happened. meta.json is written with the outcome.
cd "$(dirname "$0")/.."
id="$1"; src="$2"; n="$3"; chk="${4:-$id}"
s="seeded/$id-m$n"; mkdir -p "$s"; cp "$src/patch.diff" "$src/demo_test.go" "$src/notes.md" "$s/"
conf=$(tools/confirmseed.sh /tmp/wt-$id "$(readlink -f $s)" 2>&1 | tr '\n' ';')
out=$(tools/tryseed.sh "$chk" "$s/patch.diff" 2>&1); rc=$?
case $rc in 1) got=caught;; 0) got=missed;; *) got="inconclusive($rc)";; esac
by=$(echo "$out" | grep -E "violation in" | sed -E 's/.*violation in ([A-Za-z0-9_]+): ([a-z]+) "([^"]*)".*/\1 [\2 \3]/' | sort -u | head -4 | tr '\n' ';')
python3 - "$s" "$id" "$n" "$chk" "$got" "$by" "$conf" <<'P'
import json,sys
s,id,n,chk,got,by,conf=sys.argv[1:]
json.dump({"id":f"{id}-m{n}","property":id,"check":chk,"expected":got if got in("caught","missed") else "missed",
 "origin":"independent sub-agent (fifth round; told which earlier changes to avoid) given only the property text and a scratch worktree",
 "confirmed":"tools/confirmseed.sh: "+conf,"detected_by":by if got=="caught" else "NOT DETECTED","how_run":f"tools/tryseed.sh {chk} seeded/{id}-m{n}/patch.diff"},open(s+"/meta.json","w"),indent=1)
P
echo "$id-m$n check=$chk => $got | $by | $conf"
