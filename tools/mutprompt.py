#!/usr/bin/env python3
"""prints the prompt for a seeding sub-agent: tools/mutprompt.py <id> [n]"""
import json,sys
pid=sys.argv[1]; n=sys.argv[2] if len(sys.argv)>2 else "2"
for l in open('/verif/properties.jsonl'):
    p=json.loads(l)
    if p['id']==pid: break
print(f"""You are helping test a verification effort by producing realistic, subtle breaking changes ("seeded defects") for a Go codebase: AliceO2Group/Control (AliECS, the ALICE experiment control system: a Mesos framework). You work ONLY in the scratch git worktree /tmp/wt-{pid} (a checkout of the repository). Do NOT touch /repo or /verif, and do not read anything under /verif.

Shell setup for every command: `export GOFLAGS=-mod=mod GOPROXY=off GOSUMDB=off GOTOOLCHAIN=local` (the sandbox has no network; all modules are in the module cache).

The property to break:

Title: "{p['title']}"
Statement: "{p['statement']}"
Quantifier: {p['quantifier']['text']}
Relevant code: {', '.join(p['anchors']['files'])}
Mechanisms meant to make it hold: {'; '.join(m['name']+' ('+m['where']+')' for m in p['anchors']['mechanism'])}

Your task: produce {n} DIFFERENT, independent small changes to the source (each as its own patch against the clean worktree) that each break this property while (a) the repo still compiles (`go build ./...`), and (b) the existing tests still pass (the full suite is `go test -vet=off -count=1 ./...`, ~30-60 s; the 2 walnut packages fail already at baseline and may be ignored). Prefer changes that need something specific to manifest - a particular interleaving, a crash or fault at a particular point, a multi-step sequence of operations, an unusual input or boundary value, or two cooperating sites that each look fine alone - NOT ones that ordinary use would expose at once. They should look like plausible refactoring slips or "optimisations" a developer could make. Spread the changes over different mechanisms/files of the property where possible.

For each change, write a demonstration: a Go test file (to be placed in the appropriate package directory of the worktree, e.g. <pkgdir>/zz_demo_test.go) that FAILS with the change applied and PASSES on the unchanged code. The first line of the file must be a comment of the form `// package directory: <path relative to repo root>`. Keep demos self-contained (fakes/stubs inside the test file; no network, no Mesos, no Consul server - use in-process fakes such as net/http/httptest if a client library must be driven).

Deliverables - create directory /tmp/seed-{pid}/ containing for i in 1..{n}: `m<i>/patch.diff` (output of `git diff` for the source change only, NOT including the demo test), `m<i>/demo_test.go`, `m<i>/notes.md` (what the change is, what specific situation is needed for it to manifest, and the exact commands you ran with their outcome: build, existing tests, demo failing with change, demo passing without). Verify all four facts yourself by actually running the commands. Never use `git stash` (the stash is shared between worktrees and other people work in sibling worktrees): to switch between changed and clean code save `git diff > file` and use `git apply` / `git apply -R`. Do not include core/environment/runcounter.txt (a test artefact) in a patch. Leave the worktree clean at the end (`git -C /tmp/wt-{pid} checkout -- . && git -C /tmp/wt-{pid} clean -fd`). Report back a short summary (what each change is and what it needs to manifest).""")
if len(sys.argv) > 3:
    print("\nAVOID repeating these changes, which have been produced already (pick other functions/mechanisms): " + sys.argv[3])
