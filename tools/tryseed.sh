#!/bin/bash
# usage: tools/tryseed.sh <property> <patch.diff> [check args...]
# Runs a check against a seeded change in a scratch worktree of /repo's HEAD (plus /repo's uncommitted changes are
# NOT carried over); /repo and the committed evidence files are not touched.
prop="$1"; patch="$(readlink -f "$2")"; shift 2
wt=$(mktemp -d /tmp/ts-XXXXXX); rmdir "$wt"
git -C /repo worktree add -q --detach "$wt" HEAD || exit 3
trap 'git -C /repo worktree remove --force "$wt" 2>/dev/null; rm -rf "$wt" "$wt-ev" "$wt.out"' EXIT
git -C "$wt" apply "$patch" || { echo "PATCH DOES NOT APPLY"; exit 3; }
mkdir -p "$wt-ev"
cd /verif
VERIF_REPO="$wt" VERIF_EVIDENCE_DIR="$wt-ev" ./check "$prop" "$@" > "$wt.out" 2>&1; rc=$?
grep -E "^(VIOLATION|KNOWN-FINDING|INCONCLUSIVE|OK)" "$wt.out" | cut -c1-220 | sort | uniq -c | head -20
grep -E "violation in" "$wt.out" | cut -c1-260 | head -4
echo "exit=$rc"
exit $rc
