#!/bin/bash
# usage: tools/tryseed.sh <property> <patch.diff> [check args...]  - applies a seeded change to /repo, runs the check, undoes it
prop="$1"; patch="$2"; shift 2
cd /repo || exit 3
git apply --check "$patch" || { echo "PATCH DOES NOT APPLY"; exit 3; }
git apply "$patch"
cd /verif
cp -f evidence/$prop.json /tmp/tryseed.$$.ev 2>/dev/null
./check "$prop" "$@" > /tmp/tryseed.$$.out 2>&1; rc=$?
grep -E "^(VIOLATION|KNOWN-FINDING|INCONCLUSIVE|OK)" /tmp/tryseed.$$.out | cut -c1-220 | sort | uniq -c | head -20
grep -E "violation in" /tmp/tryseed.$$.out | cut -c1-260 | head -4
echo "exit=$rc"
rm -f /tmp/tryseed.$$.out
git -C /repo checkout -- . 
[ -f /tmp/tryseed.$$.ev ] && mv -f /tmp/tryseed.$$.ev /verif/evidence/$prop.json
exit $rc
