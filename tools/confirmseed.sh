#!/bin/bash
# usage: tools/confirmseed.sh <worktree> <seed-dir> : seed-dir has patch.diff and demo_test.go (first line comment names the package dir)
# Confirms: builds, existing suite passes (modulo the 2 walnut packages failing at baseline), demo fails with the patch, passes without.
export GOFLAGS=-mod=mod GOPROXY=off GOSUMDB=off GOTOOLCHAIN=local
wt="$1"; sd="$2"
cd "$wt" || exit 3
git checkout -q -- . ; git clean -fdq
pkgdir=$(head -5 "$sd/demo_test.go" | sed -n 's#^// *package directory: *\([A-Za-z0-9_./-]*\).*#\1#p' | head -1)
[ -n "$pkgdir" ] || pkgdir=$(head -5 "$sd/demo_test.go" | grep -o '[a-z][a-zA-Z0-9_/]*/[a-zA-Z0-9_/]*' | head -1)
[ -d "$pkgdir" ] || { echo "cannot find package dir in demo header: $pkgdir"; exit 3; }
git apply "$sd/patch.diff" || { echo "patch does not apply"; exit 3; }
go build ./... || { echo "BUILD FAILS"; exit 1; }
suite=$(go test -vet=off -count=1 ./... 2>&1 | grep -E "^(FAIL|---)" | grep -v 'walnut\|TestTaskSchemaValidation\|TestGenerateTaskTemplate\|^FAIL$' | head -5)
[ -z "$suite" ] && echo "suite: passes with patch (walnut baseline failures ignored)" || { echo "SUITE FAILS with patch: $suite"; }
cp "$sd/demo_test.go" "$pkgdir/zz_demo_test.go"
if go test -vet=off -count=1 "./$pkgdir" >/tmp/cs.$$.log 2>&1; then echo "DEMO PASSES WITH PATCH (bad)"; else echo "demo: fails with patch (good)"; fi
git checkout -q -- . 
if go test -vet=off -count=1 "./$pkgdir" >/tmp/cs.$$.log 2>&1; then echo "demo: passes without patch (good)"; else echo "DEMO FAILS WITHOUT PATCH (bad)"; tail -5 /tmp/cs.$$.log; fi
rm -f "$pkgdir/zz_demo_test.go" /tmp/cs.$$.log
git checkout -q -- . ; git clean -fdq
