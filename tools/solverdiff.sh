#!/bin/bash
# usage: tools/solverdiff.sh <id> [entry]   runs a check under z3-new (default), z3 4.8.12 and cvc5 and compares the
# verdict and the number of feasible paths per entry (evidence goes to scratch directories, not to evidence/).
cd "$(dirname "$0")/.."
id="$1"; entry="${2:-}"
args=(); [ -n "$entry" ] && args=(-entry "$entry")
for sv in z3-new z3 cvc5; do
  d=$(mktemp -d /tmp/sd-XXXXXX)
  GOSYM_SOLVER=$sv VERIF_EVIDENCE_DIR=$d timeout 3000 ./check "$id" "${args[@]}" 2>&1 | grep -E "^(OK|VIOLATION|INCONCLUSIVE)" | sed -E 's/ nodes=.*//' | sort > $d.out
  echo "rc=${PIPESTATUS[0]}" >> $d.out
  eval "out_$( echo $sv | tr - _ )=$d.out"
  rm -rf $d
done
if diff -q $out_z3_new $out_z3 >/dev/null && diff -q $out_z3_new $out_cvc5 >/dev/null; then
  echo "AGREE $id $entry: $(tr '\n' ' ' < $out_z3_new | cut -c1-300)"
else
  echo "DIFFER $id $entry"; diff $out_z3_new $out_z3; diff $out_z3_new $out_cvc5
fi
rm -f $out_z3_new $out_z3 $out_cvc5
