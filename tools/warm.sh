#!/bin/bash
# Warms the Go build cache for the packages the harnesses live in, so that native replays link fast.
export GOFLAGS=-mod=mod GOPROXY=off GOSUMDB=off GOTOOLCHAIN=local
cd /repo || exit 0
pkgs=$(grep -h '^//verif:pkg' /verif/harness/*/*.go 2>/dev/null | awk '{print "./"$2}' | sort -u)
[ -z "$pkgs" ] && exit 0
go test -vet=off -count=1 -run '^$' $pkgs >/dev/null 2>&1 || true
exit 0
