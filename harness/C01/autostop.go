//go:build verif

package environment

//verif:pkg core/environment

import (
	"time"

	"github.com/AliceO2Group/Control/common/event"
	"github.com/AliceO2Group/Control/core/controlcommands"
	"github.com/AliceO2Group/Control/core/task"
	vrt "github.com/AliceO2Group/Control/zz_vrt"
)

// A run with the scheduled auto-stop switched on (auto_stop_enabled / auto_stop_timeout = 1 s) that ends BEFORE the
// timer expires, in every way a run can end: STOP_ACTIVITY, GO_ERROR, a forced teardown while RUNNING; the
// environment is then destroyed (or left as it is: CONFIGURED after a stop, ERROR after GO_ERROR). Three seconds later - whatever timer was still
// armed has fired - the environment is where it was left: DONE is terminal (no STOP_ACTIVITY, GO_ERROR or forced
// ERROR on a destroyed environment), and an environment stopped by hand is not stopped a second time.
//
//verif:entry HarnessAutoStopAfterTheRunEnded unwind=96 preempt=0 timers=lazy reach=stopped,errored,torn-down-running,left-configured,left-in-error stub=github.com/AliceO2Group/Control/common/utils.TimeTrack nosched=github.com/AliceO2Group/Control/core/the.mu steps=8000000
func HarnessAutoStopAfterTheRunEnded() {
	events := make(chan event.Event, 16)
	var world *task.VerifWorld
	world = task.VerifNewWorld(nil, events, func(cmd controlcommands.MesosCommand, rcv controlcommands.MesosCommandTarget) error {
		world.Reply(cmd, rcv, nil)
		return nil
	})
	rec := &fenvRec{}
	env := fenvNew(&fenvConf{}, rec, "CONFIGURED", []fenvHook{{name: "on-error", trigger: "before_GO_ERROR", critical: false}})
	env.workflow.GetVars().Set("auto_stop_enabled", "true")
	env.workflow.GetVars().Set("auto_stop_timeout", "1s")
	envs := NewEnvManager(world.M, events)
	envs.m[env.id] = env
	envs.pendingStateChangeCh[env.id] = env.stateChangedCh
	tm := fenvTaskman(rec, env, nil)
	envs.taskman = tm // what the auto-stop goroutine uses (ManagerInstance().taskman)
	vrt.Assert(env.TryTransition(NewStartActivityTransition(tm)) == nil && env.CurrentState() == "RUNNING", "start-succeeds")

	const (
		byStop = iota
		byGoError
		byTeardown
		byStopKeepEnvironment
		byGoErrorKeepEnvironment
	)
	how := vrt.IntRange("run.ends.by", byStop, byGoErrorKeepEnvironment)
	switch how {
	case byStop, byStopKeepEnvironment:
		vrt.Assert(env.TryTransition(NewStopActivityTransition(tm)) == nil && env.CurrentState() == "CONFIGURED", "stop-succeeds")
	case byGoError, byGoErrorKeepEnvironment:
		vrt.Assert(env.TryTransition(NewGoErrorTransition(tm)) == nil && env.CurrentState() == "ERROR", "go-error-succeeds")
	}
	left := env.CurrentState()
	if how != byStopKeepEnvironment && how != byGoErrorKeepEnvironment {
		envs.taskman = world.M
		err := envs.TeardownEnvironment(env.id, true)
		vrt.Assert(err == nil && env.CurrentState() == "DONE", "forced-teardown-succeeds")
		left = "DONE"
	}
	messages := rec.countPrefix("")
	<-time.After(3 * time.Second)
	vrt.WaitQuiescent(time.Second)
	vrt.Assert(env.CurrentState() == left, "no-scheduled-stop-after-the-run-has-ended")
	vrt.Assert(rec.countPrefix("") == messages, "no-hook-or-task-command-after-the-run-has-ended")
	vrt.Reach([]string{"stopped", "errored", "torn-down-running", "left-configured", "left-in-error"}[how])
}
