//go:build verif

package environment

//verif:pkg core/environment

import (
	"github.com/AliceO2Group/Control/common/event"
	"github.com/AliceO2Group/Control/core/controlcommands"
	"github.com/AliceO2Group/Control/core/task"
	vrt "github.com/AliceO2Group/Control/zz_vrt"
)

func c01World() (*Manager, *Environment, *fenvRec) {
	events := make(chan event.Event, 16)
	var world *task.VerifWorld
	world = task.VerifNewWorld(nil, events, func(cmd controlcommands.MesosCommand, rcv controlcommands.MesosCommandTarget) error {
		world.Reply(cmd, rcv, nil)
		return nil
	})
	rec := &fenvRec{}
	env := fenvNew(&fenvConf{}, rec, "DEPLOYED", nil)
	envs := NewEnvManager(world.M, events)
	envs.m[env.id] = env
	envs.pendingStateChangeCh[env.id] = env.stateChangedCh
	return envs, env, rec
}

// A transition and a (non-forced) teardown requested at the same time are executed one after the other, each
// seeing the state the other left: either the environment is torn down first and CONFIGURE is then refused, or
// CONFIGURE completes first and the teardown is refused in CONFIGURED. Never both, never overlapping.
//verif:entry HarnessTeardownVersusTransition unwind=96 preempt=2 reach=teardownfirst,transitionfirst stub=github.com/AliceO2Group/Control/common/utils.TimeTrack nosched=github.com/AliceO2Group/Control/core/the.mu steps=8000000
func HarnessTeardownVersusTransition() {
	envs, env, rec := c01World()
	inTransition, overlapped := false, false
	body := func(e *Environment) {
		inTransition = true
		vrt.Yield()
		inTransition = false
	}
	r1, r2 := make(chan error, 1), make(chan error, 1)
	go func() { r1 <- env.TryTransition(fenvTransition{name: "CONFIGURE", rec: rec, body: body}) }()
	go func() {
		err := envs.TeardownEnvironment(env.id, false)
		if inTransition {
			overlapped = true
		}
		r2 <- err
	}()
	cfgErr, tdErr := <-r1, <-r2
	vrt.Assert(!overlapped, "teardown-never-completes-inside-a-transition")
	st := env.CurrentState()
	switch {
	case st == "DONE":
		vrt.Assert(tdErr == nil && cfgErr != nil, "teardown-first-then-the-transition-is-refused")
		vrt.Assert(rec.count("do:CONFIGURE:begin") == 0, "refused-transition-executes-nothing")
		vrt.Reach("teardownfirst")
	case st == "CONFIGURED":
		vrt.Assert(cfgErr == nil && tdErr != nil, "transition-first-then-the-teardown-sees-configured-and-is-refused")
		vrt.Reach("transitionfirst")
	default:
		vrt.Assert(false, "concurrent-teardown-and-transition-end-in-done-or-configured")
	}
}

// Two teardown requests at once: exactly one tears the environment down, the other finds it DONE and does nothing.
//verif:entry HarnessTwoTeardowns unwind=96 preempt=2 reach=one stub=github.com/AliceO2Group/Control/common/utils.TimeTrack nosched=github.com/AliceO2Group/Control/core/the.mu steps=8000000
func HarnessTwoTeardowns() {
	envs, env, _ := c01World()
	r1, r2 := make(chan error, 1), make(chan error, 1)
	go func() { r1 <- envs.TeardownEnvironment(env.id, vrt.Bool("force1")) }()
	go func() { r2 <- envs.TeardownEnvironment(env.id, vrt.Bool("force2")) }()
	e1, e2 := <-r1, <-r2
	vrt.Assert((e1 == nil) != (e2 == nil), "exactly-one-of-two-concurrent-teardowns-succeeds")
	vrt.Assert(env.CurrentState() == "DONE", "environment-is-done")
	vrt.Reach("one")
}
