//go:build verif

package environment

//verif:pkg core/environment

import (
	"errors"
	"strings"

	"github.com/AliceO2Group/Control/core/task"
	"github.com/AliceO2Group/Control/core/workflow/callable"
	vrt "github.com/AliceO2Group/Control/zz_vrt"
)

var c01States = []string{"STANDBY", "DEPLOYED", "CONFIGURED", "RUNNING", "ERROR", "DONE"}
var c01Events = []string{"DEPLOY", "CONFIGURE", "RESET", "START_ACTIVITY", "STOP_ACTIVITY", "GO_ERROR", "NO_SUCH_EVENT"}

// c01Doc is the documented transition graph (docs/handbook): the destination of event from state, or "".
func c01Doc(state, event string) string {
	switch event + "@" + state {
	case "DEPLOY@STANDBY":
		return "DEPLOYED"
	case "CONFIGURE@DEPLOYED":
		return "CONFIGURED"
	case "RESET@CONFIGURED":
		return "DEPLOYED"
	case "START_ACTIVITY@CONFIGURED":
		return "RUNNING"
	case "STOP_ACTIVITY@RUNNING":
		return "CONFIGURED"
	case "GO_ERROR@STANDBY", "GO_ERROR@DEPLOYED", "GO_ERROR@CONFIGURED", "GO_ERROR@RUNNING":
		return "ERROR"
	}
	return ""
}

const c01Opts = "stub=github.com/AliceO2Group/Control/common/utils.TimeTrack"

// One request from any state, with every combination of failing task transition, failing critical
// before-hook and failing run-number allocation: the state changes only along the documented graph; an
// illegal request executes nothing.
//
//verif:entry HarnessOneRequestFromAnyState unwind=64 reach=moved,cancelled,illegal,norunnumber stub=github.com/AliceO2Group/Control/common/utils.TimeTrack
func HarnessOneRequestFromAnyState() {
	pre := c01States[vrt.IntRange("state", 0, len(c01States)-1)]
	event := c01Events[vrt.IntRange("event", 0, len(c01Events)-1)]
	doFails, hookFails, rnFails := vrt.Bool("do.fails"), vrt.Bool("hook.fails"), vrt.Bool("runnumber.fails")
	rec := &fenvRec{}
	rec.onCall = func(c *callable.Call) error {
		if hookFails {
			return errors.New("hook failed")
		}
		return nil
	}
	conf := &fenvConf{rnFails: func() bool { return rnFails }}
	env := fenvNew(conf, rec, pre, []fenvHook{{name: "h", trigger: "before_" + event, critical: true}})
	var tr Transition = fenvTransition{name: event, rec: rec, fail: func() bool { return doFails }}
	if event == "GO_ERROR" {
		tr = NewGoErrorTransition(&task.Manager{}) // the real one (it has no task part)
	}
	err := env.TryTransition(tr)
	post := env.CurrentState()
	dst := c01Doc(pre, event)
	doRan := rec.count("do:" + event + ":begin")
	hookRan := rec.count("call:root.h:start")
	if dst == "" {
		vrt.Assert(err != nil, "illegal-request-is-refused")
		vrt.Assert(post == pre, "illegal-request-leaves-the-state-alone")
		vrt.Assert(doRan == 0 && hookRan == 0 && conf.rnCalls == 0, "illegal-request-executes-nothing")
		vrt.Reach("illegal")
		return
	}
	vrt.Assert(post == pre || post == dst, "state-changes-only-along-the-documented-graph")
	if event == "START_ACTIVITY" && rnFails {
		// the run number is obtained before the non-negative before_START_ACTIVITY hooks: no number, no hooks
		vrt.Assert(hookRan == 0, "start-without-run-number-runs-no-further-hooks")
	} else {
		vrt.Assert(hookRan == 1, "before-hook-of-a-legal-request-runs-once")
	}
	if err == nil {
		vrt.Assert(post == dst, "successful-request-reaches-the-destination")
		vrt.Assert(!hookFails && (event == "GO_ERROR" || (!doFails && doRan == 1)), "success-needs-every-part-to-succeed")
		vrt.Reach("moved")
		return
	}
	vrt.Assert(post == pre, "failed-request-stays-in-the-source-state")
	if hookFails {
		vrt.Assert(doRan == 0, "cancelled-before-the-task-transition")
	}
	if event == "START_ACTIVITY" && !hookFails && rnFails {
		vrt.Assert(doRan == 0 && env.GetCurrentRunNumber() == 0, "no-run-number-no-start")
		vrt.Reach("norunnumber")
	}
	vrt.Reach("cancelled")
}

// Two callers at once: transitions are executed one after the other, each seeing the state the other left.
//
//verif:entry HarnessConcurrentRequests unwind=64 preempt=2 reach=both stub=github.com/AliceO2Group/Control/common/utils.TimeTrack nosched=github.com/AliceO2Group/Control/core/the.mu
//verif:thorough HarnessConcurrentRequests preempt=3
func HarnessConcurrentRequests() {
	rec := &fenvRec{}
	conf := &fenvConf{}
	env := fenvNew(conf, rec, "DEPLOYED", nil)
	inFlight, maxInFlight := 0, 0
	body := func(env *Environment) {
		inFlight++
		if inFlight > maxInFlight {
			maxInFlight = inFlight
		}
		vrt.Yield()
		inFlight--
	}
	second := []string{"START_ACTIVITY", "RESET", "CONFIGURE"}[vrt.IntRange("second", 0, 2)]
	r1, r2 := make(chan error, 1), make(chan error, 1)
	go func() { r1 <- env.TryTransition(fenvTransition{name: "CONFIGURE", rec: rec, body: body}) }()
	go func() { r2 <- env.TryTransition(fenvTransition{name: second, rec: rec, body: body}) }()
	e1, e2 := <-r1, <-r2
	vrt.Assert(maxInFlight <= 1, "at-most-one-transition-in-progress")
	post := env.CurrentState()
	// sequential outcomes: CONFIGURE first (DEPLOYED->CONFIGURED) then `second` from CONFIGURED, or `second`
	// first from DEPLOYED then CONFIGURE from wherever that left the environment
	var okA, okB bool
	switch second {
	case "START_ACTIVITY":
		okA = e1 == nil && e2 == nil && post == "RUNNING"    // CONFIGURE; START
		okB = e1 == nil && e2 != nil && post == "CONFIGURED" // START refused in DEPLOYED; CONFIGURE
	case "RESET":
		okA = e1 == nil && e2 == nil && post == "DEPLOYED"   // CONFIGURE; RESET
		okB = e1 == nil && e2 != nil && post == "CONFIGURED" // RESET refused in DEPLOYED; CONFIGURE
	case "CONFIGURE":
		okA = (e1 == nil) != (e2 == nil) && post == "CONFIGURED" // exactly one of the two succeeds
		okB = okA
	}
	vrt.Assert(okA || okB, "concurrent-requests-behave-as-some-sequential-order")
	vrt.Reach("both")
}

// Two callers at once, each transition with hooks before and after it, the hooks after the state change taking an
// arbitrary time: everything the second transition does (its hooks, its task part) happens after everything the
// first one does - also after its enter_/after_ hooks, which run when the state has already changed.
//
//verif:entry HarnessTransitionsDoNotOverlap unwind=64 preempt=2 reach=serialised stub=github.com/AliceO2Group/Control/common/utils.TimeTrack nosched=github.com/AliceO2Group/Control/core/the.mu
func HarnessTransitionsDoNotOverlap() {
	rec := &fenvRec{}
	second := []string{"RESET", "START_ACTIVITY"}[vrt.IntRange("second", 0, 1)]
	rec.onCall = func(c *callable.Call) error {
		if strings.Contains(c.GetName(), "after_") {
			vrt.Yield() // takes a while
		}
		return nil
	}
	var hooks []fenvHook
	for _, ev := range []string{"CONFIGURE", second} {
		hooks = append(hooks, fenvHook{name: "before_" + ev, trigger: "before_" + ev}, fenvHook{name: "after_" + ev, trigger: "after_" + ev})
	}
	env := fenvNew(&fenvConf{}, rec, "DEPLOYED", hooks)
	r1, r2 := make(chan error, 1), make(chan error, 1)
	go func() { r1 <- env.TryTransition(fenvTransition{name: "CONFIGURE", rec: rec}) }()
	go func() { r2 <- env.TryTransition(fenvTransition{name: second, rec: rec}) }()
	<-r1
	<-r2
	span := func(ev string) (int, int) {
		first, last := -1, -1
		rec.mu.Lock()
		defer rec.mu.Unlock()
		for i, x := range rec.trace {
			if strings.Contains(x, ev) {
				if first < 0 {
					first = i
				}
				last = i
			}
		}
		return first, last
	}
	a0, a1 := span("CONFIGURE")
	b0, b1 := span(second)
	vrt.Assert(a0 >= 0, "configure-was-executed")
	if b0 >= 0 { // (the second request is refused without a trace when it comes first)
		vrt.Assert(a1 < b0 || b1 < a0, "at-most-one-transition-in-progress")
	}
	vrt.Reach("serialised")
}
