//go:build verif

package workflow

//verif:pkg core/workflow

import (
	"github.com/AliceO2Group/Control/core/task"
	"github.com/AliceO2Group/Control/core/task/sm"
	vrt "github.com/AliceO2Group/Control/zz_vrt"
)

// ---- reference folds, written from the statement of C11 (not from the code) ---------------------

// refState combines the states of critical leaves: ERROR dominates, differing healthy states give
// MIXED, INVARIANT (no opinion) is neutral, no critical leaf gives INVARIANT.
func refState(acc, s sm.State) sm.State {
	if s == sm.INVARIANT {
		return acc
	}
	if acc == sm.INVARIANT {
		return s
	}
	if acc == sm.ERROR || s == sm.ERROR {
		return sm.ERROR
	}
	if acc == s {
		return acc
	}
	return sm.MIXED
}

// refStatus combines the statuses of all descendants: anything undefined -> UNDEFINED, an undeployable
// descendant -> UNDEPLOYABLE, all active -> ACTIVE, all inactive -> INACTIVE, otherwise PARTIAL.
func refStatus(acc, s task.Status) task.Status {
	if acc == task.UNDEFINED || s == task.UNDEFINED {
		return task.UNDEFINED
	}
	if acc == task.UNDEPLOYABLE || s == task.UNDEPLOYABLE {
		return task.UNDEPLOYABLE
	}
	if acc == s {
		return acc
	}
	return task.PARTIAL
}

// refFoldState / refFoldStatus walk the subtree of r reading only the leaves.
func refFoldState(r Role) sm.State {
	acc := sm.State(sm.INVARIANT)
	var walk func(Role)
	walk = func(x Role) {
		switch t := x.(type) {
		case *taskRole:
			if t.Critical {
				acc = refState(acc, t.state.state)
			}
		case *callRole:
			if t.Critical {
				acc = refState(acc, t.state.state)
			}
		default:
			for _, c := range x.GetRoles() {
				walk(c)
			}
		}
	}
	walk(r)
	return acc
}

func refFoldStatus(r Role) task.Status {
	first := true
	acc := task.Status(task.UNDEFINED) // an aggregator without descendants has no defined status
	add := func(s task.Status) {
		if first {
			acc, first = s, false
			return
		}
		acc = refStatus(acc, s)
	}
	var walk func(Role)
	walk = func(x Role) {
		switch t := x.(type) {
		case *taskRole:
			add(t.status.status)
		case *callRole:
			add(t.status.status)
		default:
			for _, c := range x.GetRoles() {
				walk(c)
			}
		}
	}
	walk(r)
	return acc
}

// ---- tree construction --------------------------------------------------------------------------

func leafState(name string) sm.State {
	// states a task or call can be in (calls report INVARIANT when they have no opinion)
	s := sm.State(vrt.IntRange(name, int(sm.STANDBY), int(sm.INVARIANT)))
	vrt.Assume(s != sm.MIXED)
	return s
}

func leafStatus(name string) task.Status {
	s := task.Status(vrt.IntRange(name, int(task.UNDEFINED), int(task.UNDEPLOYABLE)))
	vrt.Assume(s != task.PARTIAL)
	return s
}

type c11Tree struct {
	root   *aggregatorRole
	leaves []Role // task and call roles
	aggs   []Role // inner aggregators (children before parents); root last
	kids   []Role // direct children of the root
}

func mkTask(name string, critical bool) *taskRole {
	return &taskRole{roleBase: roleBase{Name: name}, Traits: task.Traits{Critical: critical}, Task: &task.Task{}}
}
func mkCall(name string, critical bool) *callRole {
	return &callRole{roleBase: roleBase{Name: name}, Traits: task.Traits{Critical: critical}}
}

// c11Build makes a root with n children of solver-chosen kind; sub-aggregators (kinds 4, 5) are only
// generated while depth > 0 and have subN children each.
func c11Build(n, depth, subN int) *c11Tree {
	t := &c11Tree{}
	var build func(prefix string, n, depth int) []Role
	build = func(prefix string, n, depth int) []Role {
		var kids []Role
		for i := 0; i < n; i++ {
			name := prefix + string(rune('a'+i))
			maxKind := 3
			if depth > 0 {
				maxKind = 5
			}
			switch vrt.IntRange("kind."+name, 0, maxKind) {
			case 0:
				l := mkTask(name, true)
				kids, t.leaves = append(kids, l), append(t.leaves, l)
			case 1:
				l := mkTask(name, false)
				kids, t.leaves = append(kids, l), append(t.leaves, l)
			case 2:
				l := mkCall(name, true)
				kids, t.leaves = append(kids, l), append(t.leaves, l)
			case 3:
				l := mkCall(name, false)
				kids, t.leaves = append(kids, l), append(t.leaves, l)
			case 4:
				sub := &aggregatorRole{roleBase{Name: name}, aggregator{Roles: build(name, subN, depth-1)}}
				kids, t.aggs = append(kids, sub), append(t.aggs, sub)
			case 5:
				sub := &includeRole{aggregatorRole: aggregatorRole{roleBase{Name: name}, aggregator{Roles: build(name, subN, depth-1)}}}
				kids, t.aggs = append(kids, sub), append(t.aggs, sub)
			}
		}
		return kids
	}
	t.kids = build("", n, depth)
	t.root = &aggregatorRole{roleBase{Name: "root"}, aggregator{Roles: t.kids}}
	t.aggs = append(t.aggs, t.root)
	LinkChildrenToParents(t.root)
	return t
}

func isLeaf(r Role) bool {
	switch r.(type) {
	case *taskRole, *callRole:
		return true
	}
	return false
}

func setState(r Role, s sm.State) {
	switch t := r.(type) {
	case *taskRole:
		t.state.state = s
	case *callRole:
		t.state.state = s
	case *aggregatorRole:
		t.state.state = s
	case *includeRole:
		t.state.state = s
	}
}
func setStatus(r Role, s task.Status) {
	switch t := r.(type) {
	case *taskRole:
		t.status.status = s
	case *callRole:
		t.status.status = s
	case *aggregatorRole:
		t.status.status = s
	case *includeRole:
		t.status.status = s
	}
}

// ---- one-level inductive step ---------------------------------------------------------------------
//
// The node under test is `root` with n children. A child is a task/call role (critical or not) or an
// aggregator/include role. For the step at this node only the *cached* value of an aggregator child
// matters (that is what aggregateState reads and what the child forwards), so an aggregator child
// carries an arbitrary cached value and, when it is the one that changes, forwards its new value the
// way aggregatorRole.updateState does (`r.parent.updateState(r.state.get())`). Induction over the depth
// of the tree (leaves up) extends the step to trees of any depth: if every aggregator child caches the
// fold of its own subtree, then - X being associative, commutative, with INVARIANT neutral (decided in
// HarnessStateAlgebra) - the parent's fold of its children is the fold of all critical leaves below it.

// oneLevelState is the reference for one node: task/call children count only if critical, every other
// child counts with the value it reports.
func oneLevelState(kids []Role) sm.State {
	acc := sm.State(sm.INVARIANT)
	for _, k := range kids {
		if isLeaf(k) && !k.IsCritical() {
			continue
		}
		acc = refState(acc, k.GetState())
	}
	return acc
}

func oneLevelStatus(kids []Role) task.Status {
	acc := task.Status(task.UNDEFINED)
	for i, k := range kids {
		if i == 0 {
			acc = k.GetStatus()
			continue
		}
		acc = refStatus(acc, k.GetStatus())
	}
	return acc
}

func anyState(name string) sm.State { return sm.State(vrt.IntRange(name, int(sm.STANDBY), int(sm.INVARIANT))) }
func anyStatus(name string) task.Status {
	return task.Status(vrt.IntRange(name, int(task.UNDEFINED), int(task.UNDEPLOYABLE)))
}

func c11Width() int {
	if vrt.Tier() == 1 {
		return 3
	}
	return 2
}

//verif:entry HarnessStateStep unwind=12 conform=12 reach=checked,forwarded,filtered summarize=(github.com/AliceO2Group/Control/core/task/sm.State).X,(github.com/AliceO2Group/Control/core/task.Status).X,github.com/AliceO2Group/Control/core/workflow.refState,github.com/AliceO2Group/Control/core/workflow.refStatus
func HarnessStateStep() {
	t := c11Build(vrt.IntRange("n", 1, c11Width()), 1, 1)
	for i, k := range t.kids {
		if isLeaf(k) {
			setState(k, leafState("pre."+string(rune('0'+i))))
		} else {
			setState(k, anyState("pre."+string(rune('0'+i)))) // whatever the subtree below folds to
		}
	}
	setState(t.root, oneLevelState(t.kids)) // invariant: the node caches the fold of its children
	vi := vrt.IntRange("victim", 0, len(t.kids)-1)
	v := t.kids[vi]
	if isLeaf(v) {
		s := leafState("new")
		v.(PublicUpdatable).UpdateState(s)
		vrt.Assert(v.GetState() == s, "leaf-reports-its-own-state")
		if v.IsCritical() {
			vrt.Reach("forwarded")
		} else {
			vrt.Reach("filtered")
		}
	} else {
		s := anyState("new")
		setState(v, s)
		t.root.updateState(s) // tail of aggregatorRole.updateState of the child
	}
	vrt.Assert(t.root.GetState() == oneLevelState(t.kids), "aggregator-state-is-fold-of-critical-descendants")
	vrt.Reach("checked")
}

//verif:entry HarnessStatusStep unwind=12 conform=12 reach=checked summarize=(github.com/AliceO2Group/Control/core/task/sm.State).X,(github.com/AliceO2Group/Control/core/task.Status).X,github.com/AliceO2Group/Control/core/workflow.refState,github.com/AliceO2Group/Control/core/workflow.refStatus
func HarnessStatusStep() {
	t := c11Build(vrt.IntRange("n", 1, 2 /* three children of every kind times six statuses is out of reach; the deep entry composes steps */), 1, 1)
	for i, k := range t.kids {
		if isLeaf(k) {
			setStatus(k, leafStatus("pre."+string(rune('0'+i))))
		} else {
			setStatus(k, anyStatus("pre."+string(rune('0'+i))))
		}
	}
	setStatus(t.root, oneLevelStatus(t.kids))
	vi := vrt.IntRange("victim", 0, len(t.kids)-1)
	v := t.kids[vi]
	if isLeaf(v) {
		s := leafStatus("new")
		v.(PublicUpdatable).UpdateStatus(s)
		vrt.Assert(v.GetStatus() == s, "leaf-reports-its-own-status")
	} else {
		s := anyStatus("new")
		setStatus(v, s)
		t.root.updateStatus(s)
	}
	vrt.Assert(t.root.GetStatus() == oneLevelStatus(t.kids), "aggregator-status-is-fold-of-all-descendants")
	vrt.Reach("checked")
}

// ---- whole trees of depth 2 (composition of the step, checked directly; thorough tier) -----------------

//verif:entry HarnessStateDeep unwind=12 reach=checked paths=400000 summarize=(github.com/AliceO2Group/Control/core/task/sm.State).X,(github.com/AliceO2Group/Control/core/task.Status).X,github.com/AliceO2Group/Control/core/workflow.refState,github.com/AliceO2Group/Control/core/workflow.refStatus
//verif:only HarnessStateDeep thorough
func HarnessStateDeep() {
	t := c11Build(2, 1, 2)
	vrt.Assume(len(t.leaves) > 0)
	for i, l := range t.leaves {
		setState(l, leafState("pre."+string(rune('0'+i))))
	}
	for _, a := range t.aggs {
		setState(a, refFoldState(a))
	}
	vi := vrt.IntRange("victim", 0, len(t.leaves)-1)
	s := leafState("new")
	t.leaves[vi].(PublicUpdatable).UpdateState(s)
	for _, a := range t.aggs {
		vrt.Assert(a.GetState() == refFoldState(a), "deep-aggregator-state-is-fold-of-critical-descendants")
	}
	// refFoldState is ERROR exactly when some critical leaf is ERROR (by its definition above)
	vrt.Assert((t.root.GetState() == sm.ERROR) == (refFoldState(t.root) == sm.ERROR), "root-error-iff-a-critical-leaf-is-in-error")
	vrt.Reach("checked")
}

//verif:entry HarnessStatusDeep unwind=12 reach=checked paths=3000000 summarize=(github.com/AliceO2Group/Control/core/task/sm.State).X,(github.com/AliceO2Group/Control/core/task.Status).X,github.com/AliceO2Group/Control/core/workflow.refState,github.com/AliceO2Group/Control/core/workflow.refStatus
//verif:only HarnessStatusDeep thorough
func HarnessStatusDeep() {
	t := c11Build(2, 1, 2)
	vrt.Assume(len(t.leaves) > 0)
	for i, l := range t.leaves {
		setStatus(l, leafStatus("pre."+string(rune('0'+i))))
	}
	for _, a := range t.aggs {
		setStatus(a, refFoldStatus(a))
	}
	vi := vrt.IntRange("victim", 0, len(t.leaves)-1)
	s := leafStatus("new")
	t.leaves[vi].(PublicUpdatable).UpdateStatus(s)
	for _, a := range t.aggs {
		vrt.Assert(a.GetStatus() == refFoldStatus(a), "deep-aggregator-status-is-fold-of-all-descendants")
	}
	vrt.Reach("checked")
}

// ---- the algebra the fold relies on ---------------------------------------------------------------

//verif:entry HarnessStateAlgebra unwind=4 conform=12
func HarnessStateAlgebra() {
	a := sm.State(vrt.IntRange("a", 0, 7))
	b := sm.State(vrt.IntRange("b", 0, 7))
	c := sm.State(vrt.IntRange("c", 0, 7))
	vrt.Assert(a.X(b) == b.X(a), "state-product-commutative")
	vrt.Assert(a.X(b).X(c) == a.X(b.X(c)), "state-product-associative")
	vrt.Assert(a.X(sm.INVARIANT) == a, "invariant-is-neutral")
	vrt.Assert(a.X(sm.ERROR) == sm.ERROR, "error-is-absorbing")
	vrt.Assert(a.X(a) == a, "state-product-idempotent")
	if a != b && a != sm.ERROR && b != sm.ERROR && a != sm.INVARIANT && b != sm.INVARIANT {
		vrt.Assert(a.X(b) == sm.MIXED, "differing-healthy-states-give-mixed")
	}
}

//verif:entry HarnessStatusAlgebra unwind=4 conform=12
func HarnessStatusAlgebra() {
	a := task.Status(vrt.IntRange("a", 0, 4))
	b := task.Status(vrt.IntRange("b", 0, 4))
	c := task.Status(vrt.IntRange("c", 0, 4))
	vrt.Assert(a.X(b) == b.X(a), "status-product-commutative")
	vrt.Assert(a.X(b).X(c) == a.X(b.X(c)), "status-product-associative")
	vrt.Assert(a.X(task.UNDEFINED) == task.UNDEFINED, "undefined-is-absorbing")
	vrt.Assert(a.X(a) == a, "status-product-idempotent")
	if a != task.UNDEFINED {
		vrt.Assert(a.X(task.UNDEPLOYABLE) == task.UNDEPLOYABLE, "undeployable-dominates-defined")
	}
	vrt.Assert(a.X(b) == refStatus(a, b), "status-product-matches-documented-meaning")
}

// ---- base case: a freshly loaded tree -------------------------------------------------------------

// Trees as UnmarshalYAML initialises them: every role STANDBY / INACTIVE (rolebase.go:UnmarshalYAML,
// taskrole.go copy()). After the first state update of a leaf the root must report the fold of its
// critical descendants.
//verif:entry HarnessFreshTreeFirstUpdate unwind=12 reach=checked summarize=(github.com/AliceO2Group/Control/core/task/sm.State).X,(github.com/AliceO2Group/Control/core/task.Status).X,github.com/AliceO2Group/Control/core/workflow.refState,github.com/AliceO2Group/Control/core/workflow.refStatus
func HarnessFreshTreeFirstUpdate() {
	t := c11Build(2, 1, 1)
	vrt.Assume(len(t.leaves) > 0)
	for _, l := range t.leaves {
		setState(l, sm.STANDBY)
		setStatus(l, task.INACTIVE)
	}
	for _, a := range t.aggs {
		setState(a, sm.STANDBY)
		setStatus(a, task.INACTIVE)
	}
	vi := vrt.IntRange("victim", 0, len(t.leaves)-1)
	s := leafState("new")
	t.leaves[vi].(PublicUpdatable).UpdateState(s)
	if t.leaves[vi].IsCritical() {
		vrt.Assert(t.root.GetState() == refFoldState(t.root), "fresh-tree-root-state-is-fold-after-first-update")
	} else {
		vrt.Assert(t.root.GetState() == sm.STANDBY, "fresh-tree-noncritical-update-does-not-change-root")
	}
	st := leafStatus("newstatus")
	t.leaves[vi].(PublicUpdatable).UpdateStatus(st)
	vrt.Assert(t.root.GetStatus() == refFoldStatus(t.root), "fresh-tree-root-status-is-fold-after-first-update")
	vrt.Reach("checked")
}

// ---- concurrent updates of different leaves ---------------------------------------------------------

// Two goroutines update two different critical leaves (the first one twice: ERROR and back), in every
// interleaving of their lock operations; afterwards every aggregator must report the fold.
//verif:entry HarnessConcurrentUpdates unwind=12 reach=checked nosched=github.com/AliceO2Group/Control/core/the.mu summarize=(github.com/AliceO2Group/Control/core/task/sm.State).X,github.com/AliceO2Group/Control/core/workflow.refState
//verif:quick HarnessConcurrentUpdates preempt=2
//verif:thorough HarnessConcurrentUpdates preempt=99
func HarnessConcurrentUpdates() {
	t1, t2, t3 := mkTask("t1", true), mkTask("t2", true), mkTask("t3", vrt.Bool("t3critical"))
	inner := &aggregatorRole{roleBase{Name: "inner"}, aggregator{Roles: []Role{t1, t3}}}
	root := &aggregatorRole{roleBase{Name: "root"}, aggregator{Roles: []Role{inner, t2}}}
	LinkChildrenToParents(root)
	s0 := leafState("init")
	for _, l := range []Role{t1, t2, t3} {
		setState(l, s0)
	}
	setState(inner, refFoldState(inner))
	setState(root, refFoldState(root))
	// the first leaf fails and comes back, the second moves to an arbitrary state
	a1, a2, b1 := sm.State(sm.ERROR), s0, leafState("b1")
	done := make(chan struct{}, 2)
	go func() {
		t1.UpdateState(a1)
		t1.UpdateState(a2)
		done <- struct{}{}
	}()
	go func() {
		t2.UpdateState(b1)
		done <- struct{}{}
	}()
	<-done
	<-done
	vrt.Assert(t1.GetState() == a2 && t2.GetState() == b1, "leaves-keep-their-last-update")
	vrt.Assert(inner.GetState() == refFoldState(inner), "concurrent-inner-state-is-fold")
	vrt.Assert(root.GetState() == refFoldState(root), "concurrent-root-state-is-fold")
	vrt.Assert((root.GetState() == sm.ERROR) == (refFoldState(root) == sm.ERROR), "concurrent-error-neither-lost-nor-invented")
	vrt.Reach("checked")
}
