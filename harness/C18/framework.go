//go:build verif

package schedutil

//verif:pkg core/task/schedutil

import (
	"time"

	vrt "github.com/AliceO2Group/Control/zz_vrt"
	"github.com/spf13/viper"
)

// What the core tells the master about itself when it (re-)subscribes: a positive configured failover timeout is
// always part of it, whatever the other settings (checkpointing, role, GPU compatibility) - it is what makes the
// Mesos client send the stored framework id again, i.e. come back as the same framework and be told about the tasks
// of its previous life.
//verif:entry HarnessFrameworkInfo unwind=8 conform=12 reach=failover,none
func HarnessFrameworkInfo() {
	viper.Set("mesosCheckpoint", vrt.Bool("checkpoint"))
	timeout := []time.Duration{0, 10 * time.Second, 168 * time.Hour}[vrt.IntRange("failover.timeout", 0, 2)]
	viper.Set("mesosFailoverTimeout", timeout)
	viper.Set("mesosFrameworkUser", "aliecs")
	viper.Set("mesosFrameworkName", "o2control")
	role := ""
	if vrt.Bool("role") {
		role = "flp"
	}
	viper.Set("mesosFrameworkRole", role)
	viper.Set("mesosPrincipal", "")
	viper.Set("mesosFrameworkHostname", "")
	viper.Set("mesosLabels", Labels{})
	viper.Set("mesosGpuClusterCompat", vrt.Bool("gpu.compat"))
	fi := BuildFrameworkInfo()
	vrt.Assert(fi != nil && fi.Checkpoint != nil, "framework-info-is-built")
	if timeout > 0 {
		vrt.Assert(fi.FailoverTimeout != nil && *fi.FailoverTimeout == timeout.Seconds(), "configured-failover-timeout-is-announced-to-the-master")
		vrt.Reach("failover")
	} else {
		vrt.Assert(fi.FailoverTimeout == nil, "no-failover-timeout-configured-none-announced")
		vrt.Reach("none")
	}
}
