//go:build verif

package task

//verif:pkg core/task

import (
	"context"

	"github.com/AliceO2Group/Control/common/utils/uid"
	vrt "github.com/AliceO2Group/Control/zz_vrt"
	mesos "github.com/mesos/mesos-go/api/v1/lib"
	"github.com/mesos/mesos-go/api/v1/lib/scheduler"
)

var c18States = []mesos.TaskState{
	mesos.TASK_STAGING, mesos.TASK_STARTING, mesos.TASK_RUNNING, mesos.TASK_KILLING, mesos.TASK_FINISHED, mesos.TASK_FAILED,
	mesos.TASK_KILLED, mesos.TASK_ERROR, mesos.TASK_LOST, mesos.TASK_DROPPED, mesos.TASK_UNREACHABLE, mesos.TASK_GONE,
	mesos.TASK_GONE_BY_OPERATOR, mesos.TASK_UNKNOWN,
}

func c18Terminal(s mesos.TaskState) bool {
	switch s {
	case mesos.TASK_FINISHED, mesos.TASK_FAILED, mesos.TASK_KILLED, mesos.TASK_ERROR, mesos.TASK_LOST, mesos.TASK_DROPPED, mesos.TASK_GONE, mesos.TASK_GONE_BY_OPERATOR:
		return true
	}
	return false
}

// One status update from Mesos, for every task state, with or without REASON_RECONCILIATION, for a task that
// is unknown to this core (left over from a previous life), known but unowned, or owned by a live environment:
//   - a reconciliation answer about a task this core does not know, which Mesos still reports alive, is
//     answered with exactly one KILL for that task on that agent;
//   - a task owned by a live environment is never killed because of a status update, reconciliation or not;
//   - terminal states are never answered with a KILL.
//verif:entry HarnessReconciliationDecision unwind=16 conform=12 preempt=1 reach=killed,spared,terminal stub=github.com/AliceO2Group/Control/common/utils.TimeTrack
func HarnessReconciliationDecision() {
	env := uid.ID("2oDvieFrVTi")
	state := c18States[vrt.IntRange("mesos.state", 0, len(c18States)-1)]
	reconciliation := vrt.Bool("reason.reconciliation")
	known := vrt.IntRange("task", 0, 2) // 0 unknown to this core, 1 in the roster but unowned, 2 owned by a live environment
	var tasks Tasks
	var owned *Task
	switch known {
	case 1:
		t, _ := ftTask("x", "", false)
		tasks = append(tasks, t)
	case 2:
		owned, _ = ftTask("x", env, vrt.Bool("critical"))
		if vrt.Bool("owned.task.still.launching") { // in the roster and locked by its role, not yet reported running
			owned.status = INACTIVE
		}
		tasks = append(tasks, owned)
	}
	other, _ := ftTask("other", env, true) // an unrelated owned task
	tasks = append(tasks, other)
	w := ftManager(tasks, nil)
	status := mesos.TaskStatus{TaskID: mesos.TaskID{Value: "task-x"}, State: &state, AgentID: nil}
	if reconciliation {
		r := mesos.REASON_RECONCILIATION
		status.Reason = &r
	} else if vrt.Bool("reason.other") {
		r := mesos.REASON_TASK_KILLED_DURING_LAUNCH
		status.Reason = &r
	}
	agent := mesos.AgentID{Value: "agent-x"}
	if vrt.Bool("with.agent") {
		status.AgentID = &agent
	}
	err := w.m.handleMessage(NewTaskStatusMessage(status))
	vrt.Assert(err == nil, "status-update-is-handled")
	kills := w.caller.killed("task-x")
	vrt.Assert(w.caller.killed("task-other") == 0, "unrelated-tasks-are-never-killed")
	switch {
	case known == 2:
		vrt.Assert(kills == 0, "task-owned-by-a-live-environment-is-never-killed-by-a-status-update")
		vrt.Reach("spared")
	case c18Terminal(state):
		vrt.Assert(kills == 0, "terminal-task-is-not-killed")
		vrt.Reach("terminal")
	case known == 0 && reconciliation && (state == mesos.TASK_STAGING || state == mesos.TASK_STARTING || state == mesos.TASK_RUNNING || state == mesos.TASK_KILLING || state == mesos.TASK_UNKNOWN):
		vrt.Assert(kills == 1, "leftover-task-reported-alive-by-reconciliation-is-killed-exactly-once")
		vrt.Reach("killed")
	case !reconciliation:
		vrt.Assert(kills == 0, "ordinary-status-updates-never-kill")
	}
}

// Two consecutive reconciliation answers (the core reconnected twice, or the first KILL was lost): every answer
// about a task this core does not know and Mesos reports alive is answered with a KILL of its own, whether the
// previous KILL call succeeded or not - the leftover is pursued until it is gone.
//verif:entry HarnessRepeatedReconciliation unwind=16 conform=12 preempt=1 reach=twice stub=github.com/AliceO2Group/Control/common/utils.TimeTrack
func HarnessRepeatedReconciliation() {
	other, _ := ftTask("other", uid.ID("2oDvieFrVTi"), true)
	w := ftManager(Tasks{other}, nil)
	firstKillLost := vrt.Bool("first.kill.lost")
	w.caller.fail = func(id string) bool { return firstKillLost && len(w.caller.kills) == 1 }
	alive := []mesos.TaskState{mesos.TASK_STAGING, mesos.TASK_STARTING, mesos.TASK_RUNNING}
	agent := mesos.AgentID{Value: "agent-x"}
	want := 0
	for i := 0; i < 2; i++ {
		st := alive[vrt.IntRange("mesos.state", 0, len(alive)-1)]
		sameTask := i == 0 || vrt.Bool("same.task")
		id := "task-x"
		if !sameTask {
			id = "task-y"
		}
		r := mesos.REASON_RECONCILIATION
		err := w.m.handleMessage(NewTaskStatusMessage(mesos.TaskStatus{TaskID: mesos.TaskID{Value: id}, State: &st, AgentID: &agent, Reason: &r}))
		vrt.Assert(err == nil, "status-update-is-handled")
		if id == "task-x" {
			want++
		}
	}
	vrt.Assert(w.caller.killed("task-x") == want, "every-reconciliation-answer-about-a-live-leftover-is-answered-with-a-kill")
	vrt.Assert(w.caller.killed("task-y") == 2-want, "every-reconciliation-answer-about-a-live-leftover-is-answered-with-a-kill")
	vrt.Assert(w.caller.killed("task-other") == 0, "unrelated-tasks-are-never-killed")
	vrt.Reach("twice")
}

// What the core asks on every (re-)subscription: an implicit reconciliation (no task listed), whatever is in
// the roster at that time, so that the master reports every task of the framework - also those this core
// does not know.
//verif:entry HarnessReconcileOnSubscribed unwind=16 conform=12 preempt=0 reach=asked stub=github.com/AliceO2Group/Control/common/utils.TimeTrack
func HarnessReconcileOnSubscribed() {
	var tasks Tasks
	n := vrt.IntRange("roster.size", 0, 2)
	for i := 0; i < n; i++ {
		owner := uid.ID("")
		if vrt.Bool("owned") {
			owner = uid.ID("2oDvieFrVTi")
		}
		t, _ := ftTask([]string{"a", "b"}[i], owner, true)
		tasks = append(tasks, t)
	}
	w := ftManager(tasks, nil)
	err := w.m.schedulerState.reconciliationCall()(context.Background(), &scheduler.Event{Type: scheduler.Event_SUBSCRIBED})
	vrt.Assert(err == nil, "subscribed-event-is-handled")
	vrt.Assert(len(w.caller.reconciles) == 1 && w.caller.reconciles[0] == 0, "every-subscription-asks-for-an-implicit-reconciliation")
	vrt.Reach("asked")
}

// The same decision one step earlier, from where Mesos' UPDATE events enter the core: the scheduler's status-update
// handler hands EVERY update - whatever the task state, reconciliation answer or not - to the task manager, which is
// the one that decides about the KILL; an answer about a leftover task that is still staging or starting ends in a
// KILL like one about a running task. (TASK_FINISHED is left out: the handler counts it in a metrics registry that
// does not exist here; it is terminal and never killed.)
//verif:entry HarnessStatusUpdatesReachTheTaskManager unwind=16 preempt=0 reach=killed,not-killed stub=github.com/AliceO2Group/Control/common/utils.TimeTrack
func HarnessStatusUpdatesReachTheTaskManager() {
	other, _ := ftTask("other", uid.ID("2oDvieFrVTi"), true)
	w := ftManager(Tasks{other}, nil)
	w.m.MessageChannel = make(chan *TaskmanMessage, 4)
	state := c18States[vrt.IntRange("mesos.state", 0, len(c18States)-1)]
	vrt.Assume(state != mesos.TASK_FINISHED)
	reconciliation := vrt.Bool("reason.reconciliation")
	status := mesos.TaskStatus{TaskID: mesos.TaskID{Value: "task-x"}, State: &state}
	if reconciliation {
		r := mesos.REASON_RECONCILIATION
		status.Reason = &r
	}
	err := w.m.schedulerState.statusUpdate()(context.Background(), &scheduler.Event{Type: scheduler.Event_UPDATE, Update: &scheduler.Event_Update{Status: status}})
	vrt.Assert(err == nil, "status-update-is-handled")
	select {
	case msg := <-w.m.MessageChannel:
		vrt.Assert(msg.status.GetState() == state && msg.status.TaskID.Value == "task-x", "the-task-manager-gets-the-update-as-it-came")
		vrt.Assert(w.m.handleMessage(msg) == nil, "status-update-is-handled")
	default:
		vrt.Assert(false, "every-status-update-is-handed-to-the-task-manager")
	}
	alive := state == mesos.TASK_STAGING || state == mesos.TASK_STARTING || state == mesos.TASK_RUNNING || state == mesos.TASK_KILLING || state == mesos.TASK_UNKNOWN
	if reconciliation && alive {
		vrt.Assert(w.caller.killed("task-x") == 1, "leftover-task-reported-alive-by-reconciliation-is-killed-exactly-once")
		vrt.Reach("killed")
	} else if c18Terminal(state) || !reconciliation {
		vrt.Assert(w.caller.killed("task-x") == 0, "terminal-task-is-not-killed")
		vrt.Reach("not-killed")
	}
}
