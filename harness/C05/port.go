//go:build verif

package port

//verif:pkg core/task/taskclass/port

import vrt "github.com/AliceO2Group/Control/zz_vrt"

func digits(name string, n int) (string, uint64) {
	s := vrt.Bytes(name, n)
	var v uint64
	for i := 0; i < n; i++ {
		vrt.Assume(s[i] >= '0' && s[i] <= '9')
		v = v*10 + uint64(s[i]-'0')
	}
	return s, v
}

// "static ranges exactly as written in the template": a-b means ports a..b, a single number means a..a.
//verif:entry HarnessRangesFromExpression unwind=12 conform=12 reach=range,single,two
func HarnessRangesFromExpression() {
	a, av := digits("a", vrt.IntRange("alen", 1, 2+vrt.Tier()))
	switch vrt.IntRange("shape", 0, 2) {
	case 0: // "a"
		r, err := RangesFromExpression(a)
		vrt.Assert(err == nil && len(r) == 1 && r[0].Begin == av && r[0].End == av, "single-port-is-a-one-port-range")
		vrt.Reach("single")
	case 1: // "a-b"
		b, bv := digits("b", vrt.IntRange("blen", 1, 2+vrt.Tier()))
		r, err := RangesFromExpression(a + "-" + b)
		vrt.Assert(err == nil && len(r) == 1, "range-expression-parses")
		vrt.Assert(r[0].Begin == av, "range-begin-as-written")
		vrt.Assert(r[0].End == bv, "range-end-as-written")
		vrt.Reach("range")
	case 2: // "a-b, c"
		b, bv := digits("b", 2)
		c, cv := digits("c", 2)
		r, err := RangesFromExpression(a + "-" + b + ", " + c)
		vrt.Assert(err == nil && len(r) == 2, "two-ranges-parse")
		vrt.Assert(r[0].Begin == av && r[0].End == bv && r[1].Begin == cv && r[1].End == cv, "two-ranges-as-written")
		vrt.Reach("two")
	}
}

//verif:entry HarnessRangesMalformed unwind=12 conform=12 reach=rejected
func HarnessRangesMalformed() {
	// digits with one arbitrary ASCII byte that is not part of the port-expression alphabet
	s := vrt.Bytes("expr", vrt.IntRange("len", 1, 3+vrt.Tier()))
	k := vrt.IntRange("badpos", 0, len(s)-1)
	for i := 0; i < len(s); i++ {
		c := s[i]
		if i == k {
			vrt.Assume(c < 0x80 && !(c >= '0' && c <= '9') && c != '-' && c != ',' && c != ' ' && c != '\t' && c != '\n' && c != '\v' && c != '\f' && c != '\r' && c != '+' && c != '_')
		} else {
			vrt.Assume((c >= '0' && c <= '9') || c == '-' || c == ',')
		}
	}
	_, err := RangesFromExpression(s)
	vrt.Assert(err != nil, "garbage-in-port-expression-is-rejected")
	vrt.Reach("rejected")
}
