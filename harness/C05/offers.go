//go:build verif

package task

//verif:pkg core/task
//verif:hook configuration/template Fields.Execute
//verif:hook core/the ConfSvc
//verif:hook apricot Instance

import (
	"context"
	texttemplate "text/template"

	"github.com/AliceO2Group/Control/apricot"
	"github.com/AliceO2Group/Control/common"
	"github.com/AliceO2Group/Control/common/controlmode"
	"github.com/AliceO2Group/Control/common/gera"
	"github.com/AliceO2Group/Control/common/utils/uid"
	"github.com/AliceO2Group/Control/configuration"
	"github.com/AliceO2Group/Control/configuration/template"
	"github.com/AliceO2Group/Control/core/repos"
	"github.com/AliceO2Group/Control/core/task/channel"
	"github.com/AliceO2Group/Control/core/task/constraint"
	"github.com/AliceO2Group/Control/core/task/taskclass"
	"github.com/AliceO2Group/Control/core/task/taskclass/port"
	"github.com/AliceO2Group/Control/core/the"
	vrt "github.com/AliceO2Group/Control/zz_vrt"
	mesos "github.com/mesos/mesos-go/api/v1/lib"
	"github.com/mesos/mesos-go/api/v1/lib/scheduler"
)

// c05Conf is the configuration service seen by the scheduler (detector lookups only).
type c05Conf struct{ configuration.Service }

func (c05Conf) GetDetectorForHost(string) (string, error) { return "TST", nil }
func (c05Conf) GetDetectorsForHosts(hosts []string) ([]string, error) {
	return []string{"TST"}, nil
}

func c05CopyExecutor(state *schedulerState) *mesos.ExecutorInfo {
	e := *state.executor
	e.Command = &mesos.CommandInfo{}
	return &e
}

type c05PR struct{ lo, hi uint64 }

func c05PIn(p uint64, rs []c05PR) bool {
	for _, r := range rs {
		if p >= r.lo && p <= r.hi {
			return true
		}
	}
	return false
}

func c05Scal(rs []mesos.Resource, name string) float64 {
	v := 0.0
	for _, r := range rs {
		if r.Name == name && r.Scalar != nil {
			v += r.Scalar.Value
		}
	}
	return v
}

func c05TaskPorts(rs []mesos.Resource) []c05PR {
	var out []c05PR
	for _, r := range rs {
		if r.Name == "ports" && r.Ranges != nil {
			for _, x := range r.Ranges.Range {
				out = append(out, c05PR{x.Begin, x.End})
			}
		}
	}
	return out
}

// One OFFERS event handled by the real scheduler handler (resourceOffers -> makeTaskForMesosResources), with a
// deployment request for two task descriptors pending:
//   - offer 1 (host flp1): 4 CPUs, 1024 MB, two port ranges [a, a+la] and [b, b+lb] anywhere (symbolic);
//     offer 2 (host flp2): same scalars, ports 31000-31009;
//   - each task class wants 1 or 3 CPUs, 256 or 768 MB, 0 or 1 inbound TCP channel, is FairMQ-controlled (needs a
//     control port) or basic; the first class may also want one static port; each descriptor is either free to go
//     anywhere or pinned to flp1 by a machine_id constraint (the pre-match path).
//
// What the master receives: every launched task asks for ports that come from its offer, its data ports are
// >= 9000 and its control port >= 30000, its ports resource is exactly its static port, bound ports and control
// port; the ports of all tasks launched on one offer are pairwise distinct; the CPUs and memory requested on one
// offer do not exceed it; every offer is either used by an ACCEPT that launches something or declined, never both,
// never neither; a pinned task is only launched on the agent it is pinned to.
//verif:entry HarnessResourceOffers unwind=24 preempt=0 timers=never reach=two-on-one-offer,one-each stub=github.com/AliceO2Group/Control/common/utils.TimeTrack,encoding/json.Marshal,encoding/json.MarshalIndent,(github.com/mesos/mesos-go/api/v1/lib.Resources).String replace=(*github.com/AliceO2Group/Control/core/task.schedulerState).CopyExecutorInfo=>c05CopyExecutor nosched=github.com/AliceO2Group/Control/core/the.mu steps=8000000
func HarnessResourceOffers() {
	c05Offers(0)
}

// The same event with the accent on ports: offer 1 has two port ranges [a, a+la] and [b, b+lb] anywhere (a, b
// arbitrary 64-bit values, la, lb <= 2), the first class may want one static port anywhere; both tasks want
// 1 CPU and 256 MB and are pinned to flp1.
//verif:entry HarnessOfferPorts unwind=24 preempt=0 timers=never reach=two-on-one-offer,none stub=github.com/AliceO2Group/Control/common/utils.TimeTrack,encoding/json.Marshal,encoding/json.MarshalIndent,(github.com/mesos/mesos-go/api/v1/lib.Resources).String replace=(*github.com/AliceO2Group/Control/core/task.schedulerState).CopyExecutorInfo=>c05CopyExecutor nosched=github.com/AliceO2Group/Control/core/the.mu steps=8000000
func HarnessOfferPorts() {
	c05Offers(1)
}

// The same event with the accent on channels: each class has no inbound channel, a TCP one or an IPC one, with
// or without a global alias; both tasks want 1 CPU and 256 MB and are pinned to flp1. Every deployed task is told to
// bind one endpoint per inbound channel, and the endpoint is also registered under the channel's global alias.
//verif:entry HarnessOfferChannels unwind=24 preempt=0 timers=never reach=two-on-one-offer stub=github.com/AliceO2Group/Control/common/utils.TimeTrack,encoding/json.Marshal,encoding/json.MarshalIndent,(github.com/mesos/mesos-go/api/v1/lib.Resources).String replace=(*github.com/AliceO2Group/Control/core/task.schedulerState).CopyExecutorInfo=>c05CopyExecutor nosched=github.com/AliceO2Group/Control/core/the.mu steps=8000000
func HarnessOfferChannels() {
	c05Offers(2)
}

func c05Offers(mode int) {
	portsMode, channelsMode := mode == 1, mode == 2
	template.VerifHook_Fields_Execute = func(f template.Fields, confSvc template.ConfigurationService, parentPath string, varStack map[string]string, objStack map[string]interface{}, baseConfigStack map[string]string, cache map[string]texttemplate.Template, repo repos.IRepo) error {
		return nil
	}
	the.VerifHook_ConfSvc = func() configuration.Service { return c05Conf{} }
	apricot.VerifHook_Instance = func() configuration.Service { return c05Conf{} }
	env := uid.ID("2oDvieFrVTi")

	// offers
	a, b, la, lb := uint64(9000), uint64(30000), uint64(4), uint64(4)
	if portsMode {
		a, b = vrt.Uint64("ports.a"), vrt.Uint64("ports.b")
		la, lb = uint64(vrt.IntRange("ports.la", 0, 1+vrt.Tier())), uint64(vrt.IntRange("ports.lb", 0, 1+vrt.Tier()))
		vrt.Assume(a >= 1 && a < 60000 && b > a+la+1 && b < 60000)
	}
	offer1Ports := []c05PR{{a, a + la}, {b, b + lb}}
	mkOffer := func(n string, ranges []c05PR) mesos.Offer {
		cpus, mem := 4.0, 1024.0
		var rr []mesos.Value_Range
		for _, r := range ranges {
			rr = append(rr, mesos.Value_Range{Begin: r.lo, End: r.hi})
		}
		mid := "flp" + n
		return mesos.Offer{
			ID: mesos.OfferID{Value: "offer-" + n}, AgentID: mesos.AgentID{Value: "agent-" + n}, Hostname: mid,
			Attributes: []mesos.Attribute{{Name: "machine_id", Type: mesos.TEXT, Text: &mesos.Value_Text{Value: mid}}},
			Resources: []mesos.Resource{
				{Name: "cpus", Type: mesos.SCALAR.Enum(), Scalar: &mesos.Value_Scalar{Value: cpus}},
				{Name: "mem", Type: mesos.SCALAR.Enum(), Scalar: &mesos.Value_Scalar{Value: mem}},
				{Name: "ports", Type: mesos.RANGES.Enum(), Ranges: &mesos.Value_Ranges{Range: rr}},
			},
		}
	}
	offer2Ports := []c05PR{{31000, 31009}}
	offers := []mesos.Offer{mkOffer("1", offer1Ports), mkOffer("2", offer2Ports)}
	offerPorts := map[string][]c05PR{"offer-1": offer1Ports, "offer-2": offer2Ports}

	// task classes and descriptors
	w := ftManager(nil, nil)
	w.m.AgentCache = AgentCache{}
	type want struct {
		cpu, mem float64
		tcp      bool
		ipc      bool
		alias    string
		fmq      bool
		static   bool
		staticAt uint64
		pinned   bool
		role     *ftRole
	}
	var wants [2]want
	var descriptors Descriptors
	for i := 0; i < 2; i++ {
		n := []string{"k1", "k2"}[i]
		x := want{cpu: 1, mem: 256, pinned: true, tcp: vrt.Bool("inbound.tcp"), fmq: vrt.Bool("fairmq")}
		if mode == 0 {
			x.cpu, x.mem, x.pinned = []float64{1, 3}[vrt.IntRange("cpu", 0, 1)], []float64{256, 768}[vrt.IntRange("mem", 0, 1)], vrt.Bool("pinned")
		}
		class := &taskclass.Class{Defaults: gera.MakeMap[string, string](), Vars: gera.MakeMap[string, string](), Properties: gera.MakeMap[string, string]()}
		class.Identifier = taskclass.Id{Name: n}
		val, shell := "cmd-"+n, false
		class.Command = &common.CommandInfo{Value: &val, Shell: &shell}
		class.Control.Mode = controlmode.BASIC
		if x.fmq {
			class.Control.Mode = controlmode.FAIRMQ
		}
		class.Wants.Cpu, class.Wants.Memory = &x.cpu, &x.mem
		if portsMode && i == 0 && vrt.Bool("static.port") {
			x.static = true
			x.staticAt = vrt.Uint64("static.at")
			class.Wants.Ports = port.Ranges{{Begin: x.staticAt, End: x.staticAt}}
		}
		if x.tcp {
			class.Bind = []channel.Inbound{{Channel: channel.Channel{Name: "in", Type: channel.PULL, Transport: channel.DEFAULT}, Addressing: channel.TCP}}
		} else if channelsMode && vrt.Bool("inbound.ipc") {
			x.ipc = true
			class.Bind = []channel.Inbound{{Channel: channel.Channel{Name: "in", Type: channel.PULL, Transport: channel.DEFAULT}, Addressing: channel.IPC}}
		}
		if len(class.Bind) == 1 && channelsMode && vrt.Bool("inbound.global.alias") {
			x.alias = "alias-" + n
			class.Bind[0].Global = x.alias
		}
		w.m.classes.UpdateClass(n, class)
		role := &ftRole{path: "root." + n, envId: env, traits: Traits{Critical: true, Timeout: "10s"}}
		x.role = role
		d := &Descriptor{TaskRole: role, TaskClassName: n}
		if x.pinned {
			d.RoleConstraints = constraint.Constraints{{Attribute: "machine_id", Value: "flp1", Operator: constraint.Equals}}
		}
		wants[i] = x
		descriptors = append(descriptors, d)
	}
	state := w.m.schedulerState
	state.executor = &mesos.ExecutorInfo{ExecutorID: mesos.ExecutorID{Value: "default"}, Command: &mesos.CommandInfo{}}
	state.metricsAPI = &metricsAPI{offersDeclined: func(float64, ...string) {}, tasksLaunched: func(float64, ...string) {}}
	state.tasksToDeploy = make(chan *ResourceOffersDeploymentRequest, 1)
	outcome := make(chan ResourceOffersOutcome, 1)
	state.tasksToDeploy <- &ResourceOffersDeploymentRequest{tasksToDeploy: descriptors, envId: env, outcomeCh: outcome}

	err := state.resourceOffers(nil)(context.Background(), &scheduler.Event{Type: scheduler.Event_OFFERS, Offers: &scheduler.Event_Offers{Offers: offers}})
	vrt.Assert(err == nil, "offers-event-is-handled")

	// what every deployed task was told to bind: one endpoint per inbound channel, also reachable under the
	// channel's global alias when it has one (tcp or ipc alike)
	select {
	case out := <-outcome:
		for t, d := range out.deployed {
			x := wants[0]
			if d.TaskClassName == "k2" {
				x = wants[1]
			}
			ep, has := t.localBindMap["in"]
			vrt.Assert(has == (x.tcp || x.ipc), "one-bound-endpoint-per-inbound-channel")
			if x.alias != "" {
				ga, ok := t.localBindMap["::"+x.alias]
				vrt.Assert(ok && channel.EndpointEquals(ga, ep), "global-alias-names-the-endpoint-of-its-channel")
			}
		}
	default:
		vrt.Assert(false, "deployment-request-gets-its-outcome")
	}

	launchedOn := map[string]int{}
	total := 0
	for _, acc := range w.caller.accepts {
		vrt.Assert(len(acc.offers) == 1, "one-accept-per-offer")
		oid := acc.offers[0]
		launchedOn[oid] += len(acc.tasks)
		total += len(acc.tasks)
		var cpu, mem float64
		var taken []c05PR
		for _, ti := range acc.tasks {
			vrt.Assert(ti.AgentID.Value == "agent-"+oid[len("offer-"):], "task-is-launched-on-the-agent-of-its-offer")
			// which descriptor is this
			k := 0
			if len(ti.Name) >= 2 && ti.Name[:2] == "k2" {
				k = 1
			}
			x := wants[k]
			if x.pinned {
				vrt.Assert(oid == "offer-1", "pinned-task-is-launched-only-on-its-machine")
			}
			cpu += c05Scal(ti.Resources, "cpus")
			mem += c05Scal(ti.Resources, "mem")
			vrt.Assert(c05Scal(ti.Resources, "cpus") == x.cpu && c05Scal(ti.Resources, "mem") == x.mem, "task-requests-what-its-template-wants")
			ports := c05TaskPorts(ti.Resources)
			n := uint64(0)
			for _, r := range ports {
				vrt.Assert(r.lo <= r.hi, "port-range-is-well-formed")
				for p := r.lo; p <= r.hi && p < r.lo+4; p++ {
					vrt.Assert(c05PIn(p, offerPorts[oid]), "ports-handed-to-a-task-come-from-its-offer")
					vrt.Assert(!c05PIn(p, taken), "ports-on-one-agent-are-pairwise-distinct")
					taken = append(taken, c05PR{p, p})
					n++
					if !(x.static && p == x.staticAt) {
						vrt.Assert(p >= 9000, "dynamic-ports-start-at-9000")
					}
				}
			}
			expect := uint64(1) // control port (claimed for every task, used by controllable ones)
			if x.tcp {
				expect++
			}
			if x.static {
				expect++
				vrt.Assert(c05PIn(x.staticAt, ports), "static-ports-are-requested-exactly-as-written")
			}
			vrt.Assert(n == expect, "one-port-per-static-port-inbound-channel-and-control-port")
		}
		vrt.Assert(cpu <= 4 && mem <= 1024, "requests-on-one-offer-do-not-exceed-it")
	}
	for _, o := range offers {
		declined := 0
		for _, d := range w.caller.declined {
			if d == o.ID.Value {
				declined++
			}
		}
		if launchedOn[o.ID.Value] > 0 {
			vrt.Assert(declined == 0, "used-offer-is-not-declined")
		} else {
			accepted := false
			for _, acc := range w.caller.accepts {
				accepted = accepted || acc.offers[0] == o.ID.Value
			}
			vrt.Assert(declined == 1 || accepted, "unused-offer-is-declined")
		}
	}
	switch {
	case launchedOn["offer-1"] == 2 || launchedOn["offer-2"] == 2:
		vrt.Reach("two-on-one-offer")
	case total == 2:
		vrt.Reach("one-each")
	case total == 0:
		vrt.Reach("none")
		if len(w.caller.declined) == 2 {
			vrt.Reach("declined-all")
		}
	}
}
