//go:build verif

package constraint

//verif:pkg core/task/constraint

import (
	"strings"

	vrt "github.com/AliceO2Group/Control/zz_vrt"
	mesos "github.com/mesos/mesos-go/api/v1/lib"
)

func c05Attr(name, value string) mesos.Attribute {
	return mesos.Attribute{Name: name, Type: mesos.TEXT, Text: &mesos.Value_Text{Value: value}}
}

// refMatches: does the agent satisfy constraint c? The first attribute carrying the name decides
// (attribute names are unique in the O² farm); its value matches if it equals the wanted value or,
// for a comma-separated list, contains it.
func refMatches(attrs Attributes, c Constraint) bool {
	for _, a := range attrs {
		if a.Name == c.Attribute {
			v := a.GetText().GetValue()
			if v == c.Value {
				return true
			}
			for _, item := range strings.Split(v, ",") {
				if item == c.Value && strings.Contains(v, ",") {
					return true
				}
			}
			return false
		}
	}
	return false
}

// refMatchesPlain is refMatches for comma-free attribute values.
func refMatchesPlain(attrs Attributes, c Constraint) bool {
	for _, a := range attrs {
		if a.Name == c.Attribute {
			return a.GetText().GetValue() == c.Value
		}
	}
	return false
}

// Agent attributes with arbitrary names and comma-free values against up to 3 constraints.
//verif:entry HarnessSatisfy unwind=8 conform=12 reach=accepted,refused
func HarnessSatisfy() {
	na := vrt.IntRange("nattrs", 0, 3)
	nc := vrt.IntRange("ncts", 0, 3)
	var attrs Attributes
	for i := 0; i < na; i++ {
		v := vrt.String("attr.value")
		vrt.Assume(!strings.Contains(v, ","))
		attrs = append(attrs, c05Attr(vrt.String("attr.name"), v))
	}
	var cts Constraints
	for i := 0; i < nc; i++ {
		cts = append(cts, Constraint{Attribute: vrt.String("ct.attribute"), Value: vrt.String("ct.value"), Operator: Equals})
	}
	got := attrs.Satisfy(cts)
	if got {
		for _, c := range cts {
			vrt.Assert(refMatchesPlain(attrs, c), "accepted-agent-satisfies-every-constraint")
		}
		vrt.Reach("accepted")
	} else {
		vrt.Reach("refused")
	}
}

// Comma-separated attribute values (concrete lists, symbolic wanted value).
//verif:entry HarnessSatisfyLists unwind=8 conform=12 reach=accepted,refused
func HarnessSatisfyLists() {
	lists := []string{"a,b", "a,b,c", "b", ",", "a,", "ab,c"}
	attrs := Attributes{c05Attr("machine", lists[vrt.IntRange("list", 0, len(lists)-1)]), c05Attr("rack", "r1")}
	cts := Constraints{
		{Attribute: "machine", Value: vrt.Bytes("want", vrt.IntRange("wantlen", 0, 2)), Operator: Equals},
		{Attribute: "rack", Value: vrt.Bytes("rack", 2), Operator: Equals},
	}
	if attrs.Satisfy(cts) {
		for _, c := range cts {
			vrt.Assert(refMatches(attrs, c), "accepted-agent-satisfies-every-constraint(list)")
		}
		vrt.Reach("accepted")
	} else {
		vrt.Reach("refused")
	}
}

func effective(cts Constraints, attribute string) (string, int) {
	val, n := "", 0
	for _, c := range cts {
		if c.Attribute == attribute {
			if n == 0 {
				val = c.Value
			}
			n++
		}
	}
	return val, n
}

// A nearer definition of the same attribute overrides a farther one; everything else is kept.
//verif:entry HarnessMergeParent unwind=8 conform=12 reach=override,inherit,own
func HarnessMergeParent() {
	mk := func(prefix string, n int) Constraints {
		cts := Constraints{}
		for i := 0; i < n; i++ {
			c := Constraint{Attribute: vrt.String(prefix + ".attribute"), Value: vrt.String(prefix + ".value")}
			for _, o := range cts {
				vrt.Assume(o.Attribute != c.Attribute) // one role does not constrain an attribute twice
			}
			cts = append(cts, c)
		}
		return cts
	}
	child := mk("child", vrt.IntRange("nchild", 0, 2))
	parent := mk("parent", vrt.IntRange("nparent", 0, 2))
	parentBefore := append(Constraints{}, parent...)
	childBefore := append(Constraints{}, child...)
	merged := child.MergeParent(parent)
	// merging is a pure function of its operands: a task template's (cached, shared) constraints must
	// not be rewritten by the role that overrides them
	for i := range parent {
		vrt.Assert(parent[i] == parentBefore[i], "merge-leaves-the-parent-constraints-untouched")
	}
	for i := range child {
		vrt.Assert(child[i] == childBefore[i], "merge-leaves-the-child-constraints-untouched")
	}
	probe := vrt.String("probe")
	mv, mn := effective(merged, probe)
	cv, cn := effective(child, probe)
	pv, pn := effective(parent, probe)
	vrt.Assert(mn <= 1, "merged-constrains-an-attribute-at-most-once")
	switch {
	case cn > 0:
		vrt.Assert(mn == 1 && mv == cv, "nearer-definition-overrides-farther")
		if pn > 0 {
			vrt.Reach("override")
		} else {
			vrt.Reach("own")
		}
	case pn > 0:
		vrt.Assert(mn == 1 && mv == pv, "parent-constraint-inherited")
		vrt.Reach("inherit")
	default:
		vrt.Assert(mn == 0, "no-constraint-invented")
	}
	vrt.Assert(len(merged) <= len(child)+len(parent), "merged-size-bounded")
}
