//go:build verif

package task

//verif:pkg core/task

import (
	"github.com/AliceO2Group/Control/core/task/channel"
	"github.com/AliceO2Group/Control/core/task/taskclass/port"
	vrt "github.com/AliceO2Group/Control/zz_vrt"
	mesos "github.com/mesos/mesos-go/api/v1/lib"
	"github.com/mesos/mesos-go/api/v1/lib/resources"
)

func c05Ports(prefix string, n int) []mesos.Value_Range {
	var rs []mesos.Value_Range
	for i := 0; i < n; i++ {
		b, e := vrt.Uint64(prefix+".begin"), vrt.Uint64(prefix+".end")
		vrt.Assume(b <= e && e < 70000)
		rs = append(rs, mesos.Value_Range{Begin: b, End: e})
	}
	return rs
}

func inOffer(p uint64, offered []mesos.Value_Range) bool {
	for _, r := range offered {
		if r.Begin <= p && p <= r.End {
			return true
		}
	}
	return false
}

func c05ScalarAdd(left, right *mesos.Value_Scalar) *mesos.Value_Scalar {
	return &mesos.Value_Scalar{Value: left.GetValue() + right.GetValue()}
}

func c05Resources(cpu, mem float64, offered []mesos.Value_Range) Resources {
	return Resources(mesos.Resources{
		resources.NewCPUs(cpu).Resource,
		resources.NewMemory(mem).Resource,
		resources.Build().Name(resources.NamePorts).Ranges(mesos.Ranges(offered)).Resource,
	})
}

// An offer that Resources.Satisfy accepts contains every static port the task class asks for and enough
// further ports for its inbound channels (cpu and memory fixed here, see HarnessResourcesScalars).
//verif:entry HarnessResourcesPorts unwind=10 conform=12 reach=accepted,refused
func HarnessResourcesPorts() {
	offered := c05Ports("offer.ports", vrt.IntRange("offer.nranges", 1, 2))
	if len(offered) == 2 {
		vrt.Assume(offered[0].End+1 < offered[1].Begin) // Mesos offers disjoint, sorted, non-adjacent ranges
	}
	res := c05Resources(4, 4096, offered)
	w := &Wants{Cpu: 1, Memory: 512}
	for _, r := range c05Ports("want.ports", vrt.IntRange("want.nranges", 0, 1+vrt.Tier())) {
		w.StaticPorts = append(w.StaticPorts, port.Range{Begin: r.Begin, End: r.End})
	}
	nb := vrt.IntRange("want.nbind", 0, 2)
	for i := 0; i < nb; i++ {
		w.InboundChannels = append(w.InboundChannels, channel.Inbound{})
	}
	if !res.Satisfy(w) {
		vrt.Reach("refused")
		return
	}
	vrt.Reach("accepted")
	probe := vrt.Uint64("probe")
	inStatic := false
	for _, r := range w.StaticPorts {
		if r.Begin <= probe && probe <= r.End {
			inStatic = true
		}
	}
	if inStatic {
		vrt.Assert(inOffer(probe, offered), "accepted-offer-contains-every-static-port")
	}
	// ports of the offer outside the static ranges: at least one per inbound channel. Witness: nb distinct
	// ports p1<p2 cannot all be static when fewer than nb offered ports are free.
	var offeredCount, staticCount uint64
	for _, r := range offered {
		offeredCount += r.End - r.Begin + 1
	}
	if len(w.StaticPorts) == 1 {
		staticCount = w.StaticPorts[0].End - w.StaticPorts[0].Begin + 1
		vrt.Assert(offeredCount-staticCount >= uint64(nb), "accepted-offer-has-a-free-port-per-inbound-channel")
	} else if len(w.StaticPorts) == 0 {
		vrt.Assert(offeredCount >= uint64(nb), "accepted-offer-has-a-free-port-per-inbound-channel")
	}
}

// cpu and memory: an accepted offer covers what is asked (offered quantities are whole numbers, so that
// mesos-go's 3-decimal fixed-point round trip is the identity: that is what c05ScalarAdd stands for).
//verif:entry HarnessResourcesScalars unwind=10 conform=12 reach=accepted,refused replace=(*github.com/mesos/mesos-go/api/v1/lib.Value_Scalar).Add=>c05ScalarAdd solverms=60000
func HarnessResourcesScalars() {
	cpu, mem := float64(vrt.IntRange("offer.cpu", 0, 1024)), float64(vrt.IntRange("offer.mem", 0, 1048576))
	res := c05Resources(cpu, mem, []mesos.Value_Range{{Begin: 9000, End: 9100}})
	w := &Wants{Cpu: vrt.Float64("want.cpu"), Memory: vrt.Float64("want.mem")}
	vrt.Assume(w.Cpu >= 0 && w.Memory >= 0)
	vrt.Assume(w.Cpu <= 1e6 && w.Memory <= 1e9) // (sane template values: a float-to-integer conversion beyond the integer range is implementation-defined)
	if !res.Satisfy(w) {
		vrt.Reach("refused")
		return
	}
	vrt.Reach("accepted")
	vrt.Assert(w.Cpu <= cpu, "accepted-offer-covers-cpu")
	vrt.Assert(w.Memory <= mem, "accepted-offer-covers-memory")
}
