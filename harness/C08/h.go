//go:build verif

package environment

//verif:pkg core/environment

import (
	"github.com/AliceO2Group/Control/common/event"
	"github.com/AliceO2Group/Control/core/task"
	"github.com/AliceO2Group/Control/core/workflow"
	mesos "github.com/mesos/mesos-go/api/v1/lib"
	"time"

	"github.com/AliceO2Group/Control/core/workflow/callable"
	vrt "github.com/AliceO2Group/Control/zz_vrt"
)

// Hook points of CONFIGURE (DEPLOYED -> CONFIGURED) in documented firing order; the task transition sits
// between index 5 and 6.
var c08Moments = []string{"before_CONFIGURE", "leave_DEPLOYED", "enter_CONFIGURED", "after_CONFIGURE"}
var c08Weights = []string{"-5", "+0", "+7"}

func c08Point(p int) string { return c08Moments[p/3] + c08Weights[p%3] }

const c08TaskPos = 6 // first point after the task transition

type c08Hook struct {
	name    string
	trigger int
	await   int // 12 = an await point of a later transition (never reached here)
}

func (h c08Hook) spec() fenvHook {
	aw := "before_START_ACTIVITY+0"
	if h.await < 12 {
		aw = c08Point(h.await)
	}
	return fenvHook{name: h.name, trigger: c08Point(h.trigger), await: aw, critical: true}
}

// Two hooks with arbitrary trigger and await points (await not before trigger), run to completion at an
// arbitrary instant (each call yields before returning):
//   - hooks fire in the order of their points; a hook is never started before its trigger point
//     (nor before the task transition if its point lies after it);
//   - the state machine does not move past an await point before the awaited call returned;
//   - a call whose await point belongs to a later transition stays pending and is cancelled by teardown;
//     every other started call is collected (nothing of it is left pending).
//
//verif:entry HarnessTriggerAndAwaitOrder unwind=64 preempt=1 reach=ordered,pending stub=github.com/AliceO2Group/Control/common/utils.TimeTrack nosched=github.com/AliceO2Group/Control/core/the.mu
//verif:thorough HarnessTriggerAndAwaitOrder preempt=1 paths=1000000
func HarnessTriggerAndAwaitOrder() {
	a := c08Hook{name: "a", trigger: vrt.IntRange("a.trigger", 0, 11)}
	a.await = vrt.IntRange("a.await", 0, 12)
	vrt.Assume(a.await >= a.trigger)
	b := c08Hook{name: "b", trigger: 1 + 3*vrt.IntRange("b.moment", 0, 3)} // weight +0 of any moment
	if vrt.Tier() == 1 {
		b.trigger = vrt.IntRange("b.trigger", 0, 11)
	}
	b.await = b.trigger
	rec := &fenvRec{}
	rec.onCall = func(c *callable.Call) error {
		return nil
	}
	env := fenvNew(&fenvConf{}, rec, "DEPLOYED", []fenvHook{a.spec(), b.spec()})
	err := env.TryTransition(fenvTransition{name: "CONFIGURE", rec: rec})
	vrt.Assert(err == nil && env.CurrentState() == "CONFIGURED", "transition-with-successful-hooks-succeeds")
	doAt := rec.index("do:CONFIGURE:begin")
	vrt.Assert(doAt >= 0, "task-transition-ran")
	for _, h := range []c08Hook{a, b} {
		st, en := rec.index("launch:root."+h.name), rec.index("call:root."+h.name+":end")
		vrt.Assert(st >= 0 && rec.count("launch:root."+h.name) == 1 && rec.count("call:root."+h.name+":start") <= 1, "hook-started-exactly-once")
		if cs := rec.index("call:root." + h.name + ":start"); cs >= 0 {
			vrt.Assert(cs > st, "call-runs-after-it-was-fired")
		} else {
			vrt.Assert(h.await == 12, "only-a-call-awaited-later-may-not-have-begun-yet")
		}
		// trigger vs task transition
		if h.trigger >= c08TaskPos {
			vrt.Assert(st > doAt, "hook-not-started-before-its-trigger-point")
		} else {
			vrt.Assert(st < doAt, "hooks-before-the-task-transition-start-before-it")
		}
		// await vs task transition
		if h.await < c08TaskPos {
			vrt.Assert(en >= 0 && en < doAt, "state-machine-waits-at-the-await-point")
		}
		if h.await < 12 {
			vrt.Assert(en >= 0, "awaited-call-has-returned-when-the-transition-completes")
		}
	}
	sa, sb := rec.index("launch:root.a"), rec.index("launch:root.b")
	ea := rec.index("call:root.a:end")
	if a.trigger < b.trigger {
		vrt.Assert(sa < sb, "hooks-start-in-the-order-of-their-points")
	} else if b.trigger < a.trigger {
		vrt.Assert(sb < sa, "hooks-start-in-the-order-of-their-points")
	}
	if a.await < b.trigger {
		vrt.Assert(ea >= 0 && ea < sb, "later-hook-starts-only-after-an-earlier-await-point-was-passed")
	}
	// collection
	left := 0
	for _, byWeight := range env.callsPendingAwait {
		for _, calls := range byWeight {
			left += len(calls)
		}
	}
	if a.await == 12 {
		vrt.Assert(left == 1, "call-awaited-by-a-later-transition-stays-pending")
		(&Manager{}).cancelCallsPendingAwait(env)
		vrt.Reach("pending")
	} else {
		vrt.Assert(left == 0, "every-awaited-call-is-collected-exactly-once")
		vrt.Reach("ordered")
	}
}

// Hooks of equal weight at the same moment are started together: each of the two calls only returns once
// the other one has started. If they were run one after the other this would deadlock (reported).
//
//verif:entry HarnessEqualWeightStartedTogether unwind=64 preempt=2 reach=together stub=github.com/AliceO2Group/Control/common/utils.TimeTrack nosched=github.com/AliceO2Group/Control/core/the.mu
func HarnessEqualWeightStartedTogether() {
	p := c08Point(vrt.IntRange("point", 0, 11))
	startedA, startedB := make(chan struct{}), make(chan struct{})
	rec := &fenvRec{}
	rec.onCall = func(c *callable.Call) error {
		if c.GetName() == "root.a" {
			close(startedA)
			<-startedB
		} else {
			close(startedB)
			<-startedA
		}
		return nil
	}
	env := fenvNew(&fenvConf{}, rec, "DEPLOYED", []fenvHook{{name: "a", trigger: p, critical: true}, {name: "b", trigger: p, critical: true}})
	err := env.TryTransition(fenvTransition{name: "CONFIGURE", rec: rec})
	vrt.Assert(err == nil && env.CurrentState() == "CONFIGURED", "both-calls-complete")
	vrt.Reach("together")
}

// The trigger expression "name(+|-)weight": no sign means weight 0, an unparsable weight means 0.
//
//verif:entry HarnessParseTriggerExpression unwind=16 reach=signed,plain
func HarnessParseTriggerExpression() {
	name := []string{"before_CONFIGURE", "leave_RUNNING", "enter_DEPLOYED", "after_GO_ERROR"}[vrt.IntRange("name", 0, 3)]
	switch vrt.IntRange("shape", 0, 2) {
	case 0:
		n, w := callable.ParseTriggerExpression(name)
		vrt.Assert(n == name && w == 0, "no-sign-means-weight-zero")
		vrt.Reach("plain")
	case 1:
		neg := vrt.Bool("negative")
		nd := vrt.IntRange("ndigits", 1, 3)
		digits := vrt.Bytes("digits", nd)
		val := 0
		for i := 0; i < nd; i++ {
			vrt.Assume(digits[i] >= '0' && digits[i] <= '9')
			val = val*10 + int(digits[i]-'0')
		}
		sign := "+"
		if neg {
			sign, val = "-", -val
		}
		n, w := callable.ParseTriggerExpression(name + sign + digits)
		vrt.Assert(n == name, "name-is-what-precedes-the-sign")
		vrt.Assert(int(w) == val, "weight-is-the-signed-number-after-the-name")
		vrt.Reach("signed")
	case 2:
		n, w := callable.ParseTriggerExpression(name + "+x1")
		vrt.Assert(n == name && w == 0, "unparsable-weight-means-zero")
	}
}

// A call whose await point belongs to a later transition, across a sequence that passes its trigger twice
// before the await point is reached (CONFIGURE, RESET, CONFIGURE, START_ACTIVITY; or a CONFIGURE whose task
// part fails and is retried, awaited at after_CONFIGURE): every start is a call of its own and each one is
// collected at the await point - the failure of either start stops the state machine there.
//
//verif:entry HarnessCallStartedTwice unwind=64 preempt=1 reach=reset-cycle,retried stub=github.com/AliceO2Group/Control/common/utils.TimeTrack nosched=github.com/AliceO2Group/Control/core/the.mu
func HarnessCallStartedTwice() {
	failing := vrt.IntRange("failing.start", 0, 2) // which start of the call returns an error (0 = none)
	retry := vrt.Bool("retry.scenario")
	rec := &fenvRec{}
	started := 0
	rec.onCall = func(c *callable.Call) error {
		rec.mu.Lock()
		started++
		mine := started
		rec.mu.Unlock()
		if mine == failing {
			return failingCall(c)
		}
		return nil
	}
	await := "before_START_ACTIVITY"
	if retry {
		await = "after_CONFIGURE"
	}
	env := fenvNew(&fenvConf{}, rec, "DEPLOYED", []fenvHook{{name: "a", trigger: "before_CONFIGURE", await: await, critical: true}})
	var last error
	if retry {
		first := true
		err := env.TryTransition(fenvTransition{name: "CONFIGURE", rec: rec, fail: func() bool { f := first; first = false; return f }})
		vrt.Assert(err != nil && env.CurrentState() == "DEPLOYED", "failed-task-transition-leaves-the-source-state")
		vrt.WaitQuiescent(20 * time.Millisecond) // the first start has run and waits to be collected
		last = env.TryTransition(fenvTransition{name: "CONFIGURE", rec: rec})
		vrt.Reach("retried")
	} else {
		vrt.Assert(env.TryTransition(fenvTransition{name: "CONFIGURE", rec: rec}) == nil, "configure-succeeds")
		vrt.Assert(env.TryTransition(fenvTransition{name: "RESET", rec: rec}) == nil, "reset-succeeds")
		vrt.WaitQuiescent(20 * time.Millisecond)
		vrt.Assert(env.TryTransition(fenvTransition{name: "CONFIGURE", rec: rec}) == nil, "second-configure-succeeds")
		last = env.TryTransition(fenvTransition{name: "START_ACTIVITY", rec: rec})
		vrt.Reach("reset-cycle")
	}
	vrt.Assert(rec.count("launch:root.a") == 2, "each-pass-of-the-trigger-starts-the-call")
	vrt.Assert(rec.count("call:root.a:start") == 2 && rec.count("call:root.a:end") == 2, "both-starts-ran")
	if retry {
		// after_CONFIGURE is past the point of no return: a failure is reported, the state is kept
		vrt.Assert((last != nil) == (failing != 0), "every-started-call-is-collected-at-its-await-point")
	} else {
		vrt.Assert((last != nil) == (failing != 0), "every-started-call-is-collected-at-its-await-point")
		if failing != 0 {
			vrt.Assert(env.CurrentState() == "CONFIGURED", "failed-critical-call-stops-the-state-machine-at-its-await-point")
		} else {
			vrt.Assert(env.CurrentState() == "RUNNING", "nothing-failed-so-the-run-starts")
		}
	}
	left := 0
	for _, byWeight := range env.callsPendingAwait {
		for _, calls := range byWeight {
			left += len(calls)
		}
	}
	vrt.Assert(left == 0, "every-awaited-call-is-collected-exactly-once")
}

// A weight at which a call is only awaited (nothing is triggered there) and a hook triggered at a greater weight
// of the same moment: the later hook starts only after the awaited call was collected. The awaited call was started
// at an earlier moment or at a lower weight of the same moment.
//
//verif:entry HarnessAwaitOnlyWeight unwind=64 preempt=1 reach=ordered stub=github.com/AliceO2Group/Control/common/utils.TimeTrack nosched=github.com/AliceO2Group/Control/core/the.mu
func HarnessAwaitOnlyWeight() {
	m := vrt.IntRange("moment", 0, 3)
	negative := vrt.Bool("negative.half") // await at -5 and later hook at -2, or await at +0 and later hook at +7
	awaitAt, laterAt := c08Moments[m]+"+0", c08Moments[m]+"+7"
	if negative {
		awaitAt, laterAt = c08Moments[m]+"-5", c08Moments[m]+"-2"
	}
	trigger := "before_CONFIGURE-9" // before everything else
	rec := &fenvRec{}
	rec.onCall = func(c *callable.Call) error {
		if c.GetName() == "root.early" {
			<-time.After(50 * time.Millisecond) // takes a while: returns when the state machine has nothing left to do but wait for it
		}
		return nil
	}
	env := fenvNew(&fenvConf{}, rec, "DEPLOYED", []fenvHook{
		{name: "early", trigger: trigger, await: awaitAt, critical: true},
		{name: "late", trigger: laterAt, critical: true},
	})
	err := env.TryTransition(fenvTransition{name: "CONFIGURE", rec: rec})
	vrt.Assert(err == nil && env.CurrentState() == "CONFIGURED", "transition-with-successful-hooks-succeeds")
	launched, collected := rec.index("launch:root.late"), rec.index("call:root.early:end")
	vrt.Assert(launched >= 0 && collected >= 0, "both-hooks-ran")
	left := 0
	for _, byWeight := range env.callsPendingAwait {
		for _, calls := range byWeight {
			left += len(calls)
		}
	}
	vrt.Assert(left == 0, "every-awaited-call-is-collected-exactly-once")
	// the state machine reaches laterAt only after it passed awaitAt, where it waits for the early call to return
	vrt.Assert(collected < launched, "later-hook-starts-only-after-an-earlier-await-point-was-passed")
	vrt.Reach("ordered")
}

// Two calls started at the same point and awaited at two different weights of one later moment (the first one fails):
// both are collected - the failure is reported, cancelling the transition if the moment lies before the task part -
// and nothing stays pending.
//
//verif:entry HarnessTwoDeferredAwaits unwind=64 preempt=1 reach=cancelled,reported stub=github.com/AliceO2Group/Control/common/utils.TimeTrack nosched=github.com/AliceO2Group/Control/core/the.mu
func HarnessTwoDeferredAwaits() {
	m := vrt.IntRange("await.moment", 1, 3) // leave_DEPLOYED, enter_CONFIGURED, after_CONFIGURE
	wa := vrt.IntRange("first.await.weight", 0, 2)
	wb := vrt.IntRange("second.await.weight", 0, 2)
	vrt.Assume(wa != wb)
	rec := &fenvRec{}
	rec.onCall = func(c *callable.Call) error {
		if c.GetName() == "root.a" {
			return failingCall(c)
		}
		return nil
	}
	env := fenvNew(&fenvConf{}, rec, "DEPLOYED", []fenvHook{
		{name: "a", trigger: "before_CONFIGURE+0", await: c08Moments[m] + c08Weights[wa], critical: true},
		{name: "b", trigger: "before_CONFIGURE+0", await: c08Moments[m] + c08Weights[wb], critical: true},
	})
	err := env.TryTransition(fenvTransition{name: "CONFIGURE", rec: rec})
	vrt.Assert(err != nil, "failure-of-a-call-awaited-later-is-collected-and-reported")
	if m == 1 {
		vrt.Assert(env.CurrentState() == "DEPLOYED" && rec.count("do:CONFIGURE:begin") == 0, "cancelled-transition-keeps-the-source-state")
		vrt.Reach("cancelled")
	} else {
		vrt.Assert(env.CurrentState() == "CONFIGURED", "late-critical-failure-keeps-the-destination-state")
		vrt.Reach("reported")
	}
	vrt.Assert(rec.count("call:root.a:end") == 1, "the-failing-call-ran")
}

// An integration call and a hook task (a task run as a hook) at the same moment, each at its own weight, through
// the real state machine: they fire in the order of their weights, at equal weight the call is started (and
// awaited) before the task is triggered; a failing critical hook task cancels the transition if the moment lies
// before the task part, and hooks at later weights of the same half of the moment do not run.
//
//verif:entry HarnessCallsAndHookTasksByWeight unwind=64 preempt=1 timers=lazy reach=ordered,cancelled stub=github.com/AliceO2Group/Control/common/utils.TimeTrack nosched=github.com/AliceO2Group/Control/core/the.mu
func HarnessCallsAndHookTasksByWeight() {
	m := vrt.IntRange("moment", 0, 3)
	wc, wt := vrt.IntRange("call.weight", 0, 2), vrt.IntRange("task.weight", 0, 2)
	taskFails := vrt.Bool("hook.task.exits.non.zero")
	world := task.VerifNewWorld([]string{"h"}, make(chan event.Event, 16), nil)
	rec := &fenvRec{}
	env := fenvNew(&fenvConf{}, rec, "DEPLOYED", []fenvHook{{name: "c", trigger: c08Moments[m] + c08Weights[wc], critical: true}})
	hookRole := workflow.VerifHookTaskRole("h", c08Moments[m]+c08Weights[wt], true, world.Tasks[0])
	workflow.VerifSetTimeout(hookRole, "300ms")
	roles := append([]workflow.Role{}, env.workflow.GetRoles()...)
	roles = append(roles, hookRole)
	env.workflow = workflow.NewAggregatorRole("root", roles)
	workflow.LinkChildrenToParents(env.workflow)
	workflow.VerifAttach(env.workflow, env.wfAdapter)
	env.hookHandlerF = func(hs task.Tasks) error {
		rec.add("trigger:h")
		go func() {
			<-time.After(10 * time.Millisecond)
			e := &event.BasicTaskTerminated{FinalMesosState: mesos.TASK_FINISHED, VoluntaryTermination: true}
			if taskFails {
				e.ExitCode = 1
			}
			e.Origin.TaskId = mesos.TaskID{Value: hs[0].GetTaskId()}
			env.NotifyEvent(e)
		}()
		return nil
	}
	err := env.TryTransition(fenvTransition{name: "CONFIGURE", rec: rec})
	call, trig := rec.index("launch:root.c"), rec.index("trigger:h")
	sameHalf := (wc == 0) == (wt == 0) // negative weights run before, the others after the built-in work of the moment
	cancelling := taskFails && m < 2
	vrt.Assert(trig >= 0 && rec.count("trigger:h") == 1, "hook-task-is-triggered-exactly-once")
	if taskFails {
		vrt.Assert(err != nil, "failing-critical-hook-task-is-reported")
		if cancelling {
			vrt.Assert(env.CurrentState() == "DEPLOYED" && rec.count("do:CONFIGURE:begin") == 0, "cancelled-transition-keeps-the-source-state")
			vrt.Reach("cancelled")
		}
		if wc > wt && (sameHalf || cancelling) {
			vrt.Assert(call < 0, "later-weights-of-a-moment-are-skipped-after-a-critical-failure")
		}
	} else {
		vrt.Assert(err == nil && env.CurrentState() == "CONFIGURED", "transition-with-successful-hooks-succeeds")
	}
	if call >= 0 {
		if wc <= wt {
			vrt.Assert(call < trig, "hooks-fire-in-the-order-of-their-weights-calls-before-tasks-at-equal-weight")
		} else {
			vrt.Assert(trig < call, "hooks-fire-in-the-order-of-their-weights-calls-before-tasks-at-equal-weight")
		}
		vrt.Reach("ordered")
	}
}
