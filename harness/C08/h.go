//go:build verif

package environment

//verif:pkg core/environment

import (
	"github.com/AliceO2Group/Control/core/workflow/callable"
	vrt "github.com/AliceO2Group/Control/zz_vrt"
)

// Hook points of CONFIGURE (DEPLOYED -> CONFIGURED) in documented firing order; the task transition sits
// between index 5 and 6.
var c08Moments = []string{"before_CONFIGURE", "leave_DEPLOYED", "enter_CONFIGURED", "after_CONFIGURE"}
var c08Weights = []string{"-5", "+0", "+7"}

func c08Point(p int) string { return c08Moments[p/3] + c08Weights[p%3] }

const c08TaskPos = 6 // first point after the task transition

type c08Hook struct {
	name    string
	trigger int
	await   int // 12 = an await point of a later transition (never reached here)
}

func (h c08Hook) spec() fenvHook {
	aw := "before_START_ACTIVITY+0"
	if h.await < 12 {
		aw = c08Point(h.await)
	}
	return fenvHook{name: h.name, trigger: c08Point(h.trigger), await: aw, critical: true}
}

// Two hooks with arbitrary trigger and await points (await not before trigger), run to completion at an
// arbitrary instant (each call yields before returning):
//   - hooks fire in the order of their points; a hook is never started before its trigger point
//     (nor before the task transition if its point lies after it);
//   - the state machine does not move past an await point before the awaited call returned;
//   - a call whose await point belongs to a later transition stays pending and is cancelled by teardown;
//     every other started call is collected (nothing of it is left pending).
//verif:entry HarnessTriggerAndAwaitOrder unwind=64 preempt=1 reach=ordered,pending stub=github.com/AliceO2Group/Control/common/utils.TimeTrack nosched=github.com/AliceO2Group/Control/core/the.mu
//verif:thorough HarnessTriggerAndAwaitOrder preempt=2
func HarnessTriggerAndAwaitOrder() {
	a := c08Hook{name: "a", trigger: vrt.IntRange("a.trigger", 0, 11)}
	a.await = vrt.IntRange("a.await", 0, 12)
	vrt.Assume(a.await >= a.trigger)
	b := c08Hook{name: "b", trigger: 1 + 3*vrt.IntRange("b.moment", 0, 3)} // weight +0 of any moment
	if vrt.Tier() == 1 {
		b.trigger = vrt.IntRange("b.trigger", 0, 11)
	}
	b.await = b.trigger
	rec := &fenvRec{}
	rec.onCall = func(c *callable.Call) error {
		if vrt.Tier() == 1 {
			vrt.Yield() // the call takes an arbitrary time
		}
		return nil
	}
	env := fenvNew(&fenvConf{}, rec, "DEPLOYED", []fenvHook{a.spec(), b.spec()})
	err := env.TryTransition(fenvTransition{name: "CONFIGURE", rec: rec})
	vrt.Assert(err == nil && env.CurrentState() == "CONFIGURED", "transition-with-successful-hooks-succeeds")
	doAt := rec.index("do:CONFIGURE:begin")
	vrt.Assert(doAt >= 0, "task-transition-ran")
	for _, h := range []c08Hook{a, b} {
		st, en := rec.index("launch:root."+h.name), rec.index("call:root."+h.name+":end")
		vrt.Assert(st >= 0 && rec.count("launch:root."+h.name) == 1 && rec.count("call:root."+h.name+":start") <= 1, "hook-started-exactly-once")
		if cs := rec.index("call:root." + h.name + ":start"); cs >= 0 {
			vrt.Assert(cs > st, "call-runs-after-it-was-fired")
		} else {
			vrt.Assert(h.await == 12, "only-a-call-awaited-later-may-not-have-begun-yet")
		}
		// trigger vs task transition
		if h.trigger >= c08TaskPos {
			vrt.Assert(st > doAt, "hook-not-started-before-its-trigger-point")
		} else {
			vrt.Assert(st < doAt, "hooks-before-the-task-transition-start-before-it")
		}
		// await vs task transition
		if h.await < c08TaskPos {
			vrt.Assert(en >= 0 && en < doAt, "state-machine-waits-at-the-await-point")
		}
		if h.await < 12 {
			vrt.Assert(en >= 0, "awaited-call-has-returned-when-the-transition-completes")
		}
	}
	sa, sb := rec.index("launch:root.a"), rec.index("launch:root.b")
	ea := rec.index("call:root.a:end")
	if a.trigger < b.trigger {
		vrt.Assert(sa < sb, "hooks-start-in-the-order-of-their-points")
	} else if b.trigger < a.trigger {
		vrt.Assert(sb < sa, "hooks-start-in-the-order-of-their-points")
	}
	if a.await < b.trigger {
		vrt.Assert(ea >= 0 && ea < sb, "later-hook-starts-only-after-an-earlier-await-point-was-passed")
	}
	// collection
	left := 0
	for _, byWeight := range env.callsPendingAwait {
		for _, calls := range byWeight {
			left += len(calls)
		}
	}
	if a.await == 12 {
		vrt.Assert(left == 1, "call-awaited-by-a-later-transition-stays-pending")
		(&Manager{}).cancelCallsPendingAwait(env)
		vrt.Reach("pending")
	} else {
		vrt.Assert(left == 0, "every-awaited-call-is-collected-exactly-once")
		vrt.Reach("ordered")
	}
}

// Hooks of equal weight at the same moment are started together: each of the two calls only returns once
// the other one has started. If they were run one after the other this would deadlock (reported).
//verif:entry HarnessEqualWeightStartedTogether unwind=64 preempt=2 reach=together stub=github.com/AliceO2Group/Control/common/utils.TimeTrack nosched=github.com/AliceO2Group/Control/core/the.mu
func HarnessEqualWeightStartedTogether() {
	p := c08Point(vrt.IntRange("point", 0, 11))
	startedA, startedB := make(chan struct{}), make(chan struct{})
	rec := &fenvRec{}
	rec.onCall = func(c *callable.Call) error {
		if c.GetName() == "root.a" {
			close(startedA)
			<-startedB
		} else {
			close(startedB)
			<-startedA
		}
		return nil
	}
	env := fenvNew(&fenvConf{}, rec, "DEPLOYED", []fenvHook{{name: "a", trigger: p, critical: true}, {name: "b", trigger: p, critical: true}})
	err := env.TryTransition(fenvTransition{name: "CONFIGURE", rec: rec})
	vrt.Assert(err == nil && env.CurrentState() == "CONFIGURED", "both-calls-complete")
	vrt.Reach("together")
}

// The trigger expression "name(+|-)weight": no sign means weight 0, an unparsable weight means 0.
//verif:entry HarnessParseTriggerExpression unwind=16 reach=signed,plain
func HarnessParseTriggerExpression() {
	name := []string{"before_CONFIGURE", "leave_RUNNING", "enter_DEPLOYED", "after_GO_ERROR"}[vrt.IntRange("name", 0, 3)]
	switch vrt.IntRange("shape", 0, 2) {
	case 0:
		n, w := callable.ParseTriggerExpression(name)
		vrt.Assert(n == name && w == 0, "no-sign-means-weight-zero")
		vrt.Reach("plain")
	case 1:
		neg := vrt.Bool("negative")
		nd := vrt.IntRange("ndigits", 1, 3)
		digits := vrt.Bytes("digits", nd)
		val := 0
		for i := 0; i < nd; i++ {
			vrt.Assume(digits[i] >= '0' && digits[i] <= '9')
			val = val*10 + int(digits[i]-'0')
		}
		sign := "+"
		if neg {
			sign, val = "-", -val
		}
		n, w := callable.ParseTriggerExpression(name + sign + digits)
		vrt.Assert(n == name, "name-is-what-precedes-the-sign")
		vrt.Assert(int(w) == val, "weight-is-the-signed-number-after-the-name")
		vrt.Reach("signed")
	case 2:
		n, w := callable.ParseTriggerExpression(name + "+x1")
		vrt.Assert(n == name && w == 0, "unparsable-weight-means-zero")
	}
}
