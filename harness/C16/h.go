//go:build verif

package executorcmd

//verif:pkg executor/executorcmd

import (
	"context"
	"errors"

	"github.com/AliceO2Group/Control/executor/executorcmd/transitioner"
	pb "github.com/AliceO2Group/Control/executor/protos"
	vrt "github.com/AliceO2Group/Control/zz_vrt"
	"github.com/sirupsen/logrus"
	"google.golang.org/grpc"
)

// ---- a truthful FairMQ device behind the OCC gRPC client ---------------------------------------

// fmqNext is the FairMQ device state machine (the documented one, written from the FairMQ docs, not
// from the code under test): the state an accepted event leads to, and whether the event is legal.
func fmqNext(state, evt string) (string, bool) {
	switch state + "/" + evt {
	case "IDLE/INIT DEVICE":
		return "INITIALIZING DEVICE", true
	case "INITIALIZING DEVICE/COMPLETE INIT":
		return "INITIALIZED", true
	case "INITIALIZED/BIND":
		return "BOUND", true
	case "BOUND/CONNECT":
		return "DEVICE READY", true
	case "DEVICE READY/INIT TASK":
		return "READY", true
	case "READY/RUN":
		return "RUNNING", true
	case "RUNNING/STOP":
		return "READY", true
	case "READY/RESET TASK":
		return "DEVICE READY", true
	case "DEVICE READY/RESET DEVICE", "BOUND/RESET DEVICE", "INITIALIZED/RESET DEVICE":
		return "IDLE", true
	case "IDLE/END":
		return "EXITING", true
	}
	return state, false
}

// image of a FairMQ state in O² terms; intermediate device states have none.
func o2Image(fmq string) string {
	switch fmq {
	case "IDLE":
		return "STANDBY"
	case "READY":
		return "CONFIGURED"
	case "RUNNING":
		return "RUNNING"
	case "ERROR":
		return "ERROR"
	case "EXITING":
		return "DONE"
	}
	return ""
}

func fmqOf(o2 string) string {
	switch o2 {
	case "STANDBY":
		return "IDLE"
	case "CONFIGURED":
		return "READY"
	case "RUNNING":
		return "RUNNING"
	case "ERROR":
		return "ERROR"
	case "DONE":
		return "EXITING"
	}
	return ""
}

type devCall struct {
	before  string
	evt     string
	outcome int
}

const (
	oDone = iota
	oRefused
	oErrorState
	oTransport
)

type occDev struct {
	pb.OccClient // the other RPCs are not used by the transition path
	state        string
	calls        []devCall
	lastAnswered bool
	allAnswered  bool
}

func (d *occDev) Transition(ctx context.Context, in *pb.TransitionRequest, opts ...grpc.CallOption) (*pb.TransitionReply, error) {
	vrt.Assume(len(d.calls) < 9)
	before := d.state
	target, legal := fmqNext(d.state, in.TransitionEvent)
	o := vrt.IntRange("outcome", 0, 3)
	if o == oDone && !legal {
		// a real device never performs an event that is illegal in its state: it refuses in place
		o = oRefused
	}
	d.calls = append(d.calls, devCall{before, in.TransitionEvent, o})
	switch o {
	case oDone:
		d.state = target
		d.lastAnswered = true
		return &pb.TransitionReply{Ok: true, Trigger: pb.StateChangeTrigger_EXECUTOR, TransitionEvent: in.TransitionEvent, State: d.state}, nil
	case oRefused:
		d.lastAnswered = true
		return &pb.TransitionReply{Ok: false, Trigger: pb.StateChangeTrigger_EXECUTOR, TransitionEvent: in.TransitionEvent, State: d.state}, nil
	case oErrorState:
		d.state = "ERROR"
		d.lastAnswered = true
		return &pb.TransitionReply{Ok: false, Trigger: pb.StateChangeTrigger_DEVICE_ERROR, TransitionEvent: in.TransitionEvent, State: d.state}, nil
	}
	// transport error: the request may or may not have had an effect
	switch vrt.IntRange("hidden", 0, 2) {
	case 1:
		if legal {
			d.state = target
		}
	case 2:
		d.state = "ERROR"
	}
	d.lastAnswered = false
	d.allAnswered = false
	return nil, errors.New("rpc error: transport is closing")
}

var c16Events = []string{"START", "STOP", "CONFIGURE", "RESET", "EXIT", "GO_ERROR", "RECOVER"}
var c16Dst = []string{"RUNNING", "CONFIGURED", "CONFIGURED", "STANDBY", "DONE", "ERROR", "STANDBY"}
var c16States = []string{"STANDBY", "CONFIGURED", "RUNNING", "ERROR", "DONE"}
var c16Fmq = []string{"IDLE", "INITIALIZING DEVICE", "INITIALIZED", "BOUND", "DEVICE READY", "READY", "RUNNING", "ERROR", "EXITING"}

func isIntermediate(s string) bool {
	return s == "INITIALIZED" || s == "BOUND" || s == "DEVICE READY"
}

func c16Run(arbitraryStart bool) {
	ei := vrt.IntRange("event", 0, len(c16Events)-1)
	si := vrt.IntRange("source", 0, len(c16States)-1)
	evt, dst, src := c16Events[ei], c16Dst[ei], c16States[si]
	dev := &occDev{state: fmqOf(src), allAnswered: true, lastAnswered: true}
	if arbitraryStart {
		dev.state = c16Fmq[vrt.IntRange("devstate", 0, len(c16Fmq)-1)]
	}
	start := dev.state
	client := &RpcClient{OccClient: dev, Log: logrus.NewEntry(logrus.New())}
	client.Transitioner = transitioner.NewTransitioner(1 /* controlmode.FAIRMQ */, client.doTransition)
	_, isFmq := client.Transitioner.(*transitioner.FairMQ)
	vrt.Assert(isFmq, "fairmq-transitioner-selected")

	cmd := &ExecutorCommand_Transition{Transitioner: client.Transitioner}
	cmd.Event, cmd.Source, cmd.Destination = evt, src, dst
	final, err := cmd.Commit()
	// what goes back to the core: the response the executor builds from the outcome (ControllableTask.Transition)
	resp := cmd.PrepareResponse(err, final, "task-1")
	vrt.Assert(resp != nil && resp.CurrentState == final && (resp.Err() != nil) == (err != nil), "response-to-the-core-carries-the-reported-state-and-the-error")

	stepsIssued := len(dev.calls) > 0
	if evt == "GO_ERROR" || evt == "RECOVER" {
		// documented as not implemented for FairMQ devices: no device step, the source state is reported
		vrt.Assert(!stepsIssued && final == src, "goerror-recover-report-source-without-touching-device")
		vrt.Reach("noop")
		return
	}
	vrt.Assert(stepsIssued, "device-was-asked")
	// (1) reported state = image of the device's real state, whenever the device answered last
	if dev.lastAnswered {
		vrt.Assert(final == o2Image(dev.state), "reported-state-is-image-of-real-state")
	} else {
		vrt.Assert(err != nil || final != dst, "transport-error-never-reported-as-success")
	}
	// (2) success only if the destination was reached
	if err == nil {
		vrt.Assert(dev.state == fmqOf(dst) && final == dst, "success-only-if-destination-reached")
		vrt.Reach("success")
	} else {
		vrt.Reach("failure")
	}
	// (3) a multi-step transition stuck in an intermediate state is rolled back when the device accepts
	if !arbitraryStart && err != nil && dev.allAnswered && isIntermediate(dev.state) {
		rb := "RESET DEVICE"
		if evt == "RESET" || evt == "EXIT" {
			rb = "INIT TASK"
		}
		attemptedAndRefused := false
		for _, c := range dev.calls {
			if c.before == dev.state && c.evt == rb && c.outcome != oDone {
				attemptedAndRefused = true
			}
		}
		vrt.Assert(attemptedAndRefused, "stuck-intermediate-only-if-rollback-was-refused")
		vrt.Reach("stuck")
	}
	if !arbitraryStart && err != nil && dev.allAnswered && dev.state == start && len(dev.calls) > 1 {
		vrt.Reach("rolledback")
	}
}

//verif:entry HarnessFairMQCommit unwind=12 conform=12 reach=success,failure,noop,stuck,rolledback stub=(github.com/AliceO2Group/Control/executor/protos.StateChangeTrigger).String silence=google.golang.org/grpc/status
func HarnessFairMQCommit() { c16Run(false) }

//verif:entry HarnessFairMQCommitAnyDeviceState unwind=12 conform=12 reach=success,failure stub=(github.com/AliceO2Group/Control/executor/protos.StateChangeTrigger).String silence=google.golang.org/grpc/status
func HarnessFairMQCommitAnyDeviceState() { c16Run(true) }

// ---- reply acceptance rule of the gRPC client ---------------------------------------------------

type occReply struct {
	pb.OccClient
	reply *pb.TransitionReply
	err   error
}

func (d *occReply) Transition(ctx context.Context, in *pb.TransitionRequest, opts ...grpc.CallOption) (*pb.TransitionReply, error) {
	return d.reply, d.err
}

//verif:entry HarnessDoTransitionAccept unwind=4 conform=12 reach=accepted,rejected,transport,nilreply stub=(github.com/AliceO2Group/Control/executor/protos.StateChangeTrigger).String silence=google.golang.org/grpc/status
func HarnessDoTransitionAccept() {
	evt, dst := vrt.String("evt"), vrt.String("dst")
	rEvt, rState := vrt.String("reply.event"), vrt.String("reply.state")
	rOk := vrt.Bool("reply.ok")
	rTrig := pb.StateChangeTrigger(vrt.Int32("reply.trigger"))
	d := &occReply{}
	mode := vrt.IntRange("mode", 0, 2)
	switch mode {
	case 0:
		d.reply = &pb.TransitionReply{Ok: rOk, Trigger: rTrig, TransitionEvent: rEvt, State: rState}
	case 1:
		d.err = errors.New("rpc error")
	case 2: // nil reply, nil error
	}
	client := &RpcClient{OccClient: d, Log: logrus.NewEntry(logrus.New())}
	st, err := client.doTransition(transitioner.EventInfo{Evt: evt, Src: "X", Dst: dst})
	switch mode {
	case 0:
		want := rOk && rTrig == pb.StateChangeTrigger_EXECUTOR && rEvt == evt && rState == dst
		vrt.Assert((err == nil) == want, "accepted-iff-ok-executor-same-event-expected-state")
		vrt.Assert(st == rState, "reported-state-is-the-reply-state")
		if err == nil {
			vrt.Reach("accepted")
		} else {
			vrt.Reach("rejected")
		}
	case 1:
		vrt.Assert(err != nil && st == "", "transport-error-is-error-without-state")
		vrt.Reach("transport")
	case 2:
		vrt.Assert(err != nil && st == "", "nil-reply-is-error-without-state")
		vrt.Reach("nilreply")
	}
}

// ---- direct transitioner -----------------------------------------------------------------------

//verif:entry HarnessDirectCommit unwind=4 conform=12
func HarnessDirectCommit() {
	s, fail := vrt.String("state"), vrt.Bool("fail")
	var seen transitioner.EventInfo
	tr := transitioner.NewTransitioner(0 /* controlmode.DIRECT */, func(ei transitioner.EventInfo) (string, error) {
		seen = ei
		if fail {
			return s, errors.New("x")
		}
		return s, nil
	})
	evt, src, dst := vrt.String("evt"), vrt.String("src"), vrt.String("dst")
	cmd := &ExecutorCommand_Transition{Transitioner: tr}
	cmd.Event, cmd.Source, cmd.Destination = evt, src, dst
	final, err := cmd.Commit()
	vrt.Assert(final == s && (err != nil) == fail, "direct-reports-what-the-device-said")
	vrt.Assert(seen.Evt == evt && seen.Src == src && seen.Dst == dst, "direct-passes-request-unchanged")
	vrt.Assert(tr.FromDeviceState(s) == s, "direct-device-state-is-identity")
}
