//go:build verif

package workflow

//verif:pkg core/workflow
//verif:hook configuration/template Fields.Execute
//verif:hook core/the ConfSvc

import (
	"errors"
	"strings"
	texttemplate "text/template"

	"github.com/AliceO2Group/Control/common/gera"
	"github.com/AliceO2Group/Control/configuration"
	"github.com/AliceO2Group/Control/configuration/template"
	"github.com/AliceO2Group/Control/core/repos"
	"github.com/AliceO2Group/Control/core/task"
	"github.com/AliceO2Group/Control/core/the"
	vrt "github.com/AliceO2Group/Control/zz_vrt"
	"github.com/spf13/viper"
)

const (
	c15True = iota
	c15False
	c15Error
)

func c15Base(name, enabledKey string) roleBase {
	return roleBase{Name: name, Enabled: "{{enabled:" + enabledKey + "}}", Defaults: gera.MakeMap[string, string](), Vars: gera.MakeMap[string, string](),
		UserVars: gera.MakeMap[string, string](), Locals: map[string]string{}}
}

func c15Call(name, key string) *callRole {
	return &callRole{roleBase: c15Base(name, key), Traits: task.Traits{Trigger: "before_CONFIGURE", Await: "before_CONFIGURE", Timeout: "1s"}, FuncCall: "verif.Hook()"}
}

// The structural half of workflow loading, with template evaluation replaced by a model (a role's `enabled`
// expression evaluates to true, false or a template error as the solver chooses; "{{ it }}" is replaced by the
// iteration variable): roles whose enabled expression is false are absent with their whole subtree, an aggregator
// left empty disappears, an iterator yields one child per element of its range, in order, with the iteration
// variable bound, an error in any processed role fails the load, and the resulting tree is the same for every
// setting of the three concurrency switches and every interleaving.
//verif:entry HarnessLoadStructure unwind=48 conform=12 preempt=0 sleepbound=0 reach=loaded,failed stub=github.com/AliceO2Group/Control/common/utils.TimeTrack
//verif:thorough HarnessLoadStructure preempt=1 paths=1500000
func HarnessLoadStructure() {
	keys := []string{"root", "a", "b", "b1", "b2", "c"}
	decision := map[string]int{}
	for _, k := range keys {
		decision[k] = vrt.IntRange("enabled."+k, c15True, c15Error)
	}
	vrt.Assume(decision["root"] != c15False) // a disabled root is an empty workflow: uninteresting
	template.VerifHook_Fields_Execute = func(f template.Fields, confSvc template.ConfigurationService, parentPath string, varStack map[string]string, objStack map[string]interface{}, baseConfigStack map[string]string, cache map[string]texttemplate.Template, repo repos.IRepo) error {
		for _, field := range f {
			v := field.Get()
			if strings.HasPrefix(v, "{{enabled:") {
				switch decision[strings.TrimSuffix(strings.TrimPrefix(v, "{{enabled:"), "}}")] {
				case c15True:
					field.Set(" true\n") // with the blanks a YAML block scalar or a padded expression leaves (seed C15-m6)
				case c15False:
					field.Set("false ")
				default:
					return errors.New("template error in " + parentPath)
				}
			} else if strings.Contains(v, "{{ it }}") {
				field.Set(strings.ReplaceAll(v, "{{ it }}", varStack["it"]))
			}
		}
		return nil
	}
	the.VerifHook_ConfSvc = func() configuration.Service { return nil }
	viper.Set("concurrentWorkflowTemplateProcessing", vrt.Bool("concurrent.children"))
	viper.Set("concurrentWorkflowTemplateIteratorProcessing", vrt.Bool("concurrent.iterator.children"))
	viper.Set("concurrentIteratorRoleExpansion", vrt.Bool("concurrent.iterator.expansion"))

	b := &aggregatorRole{c15Base("b", "b"), aggregator{Roles: []Role{c15Call("b1", "b1"), c15Call("b2", "b2")}}}
	it := &iteratorRole{For: &iteratorRangeFor{Begin: "0", End: "1", Var: "it"}, template: &callTemplate{callRole: *c15Call("c{{ it }}", "c")}}
	root := &aggregatorRole{c15Base("root", "root"), aggregator{Roles: []Role{c15Call("a", "a"), b, it}}}
	LinkChildrenToParents(root)
	it.setParent(root)

	err := root.ProcessTemplates(nil, nil, map[string]string{})
	vrt.Trace("err", err)

	// reference: which roles are processed, which survive
	wantErr := decision["root"] == c15Error
	var want []string
	if !wantErr {
		if decision["a"] == c15Error {
			wantErr = true
		} else if decision["a"] == c15True {
			want = append(want, "a")
		}
		switch decision["b"] {
		case c15Error:
			wantErr = true
		case c15True:
			var kids []string
			for _, k := range []string{"b1", "b2"} {
				if decision[k] == c15Error {
					wantErr = true
				} else if decision[k] == c15True {
					kids = append(kids, k)
				}
			}
			if len(kids) > 0 {
				want = append(want, "b")
				for _, k := range kids {
					want = append(want, "b."+k)
				}
			}
		}
		if decision["c"] == c15Error {
			wantErr = true
		} else if decision["c"] == c15True {
			want = append(want, "c0", "c1")
		}
	}
	if wantErr {
		vrt.Assert(err != nil, "template-error-in-a-processed-role-fails-the-load")
		vrt.Reach("failed")
		return
	}
	vrt.Assert(err == nil, "load-succeeds-without-template-errors")
	var got []string
	for _, r := range root.GetRoles() {
		got = append(got, r.GetName())
		if _, isCall := r.(*callRole); !isCall {
			for _, c := range r.GetRoles() {
				got = append(got, r.GetName()+"."+c.GetName())
			}
		}
	}
	vrt.Trace("got", strings.Join(got, ","), "want", strings.Join(want, ","))
	vrt.Assert(strings.Join(got, ",") == strings.Join(want, ","), "role-tree-is-exactly-the-enabled-roles-in-order")
	for _, r := range root.GetRoles() {
		if strings.HasPrefix(r.GetName(), "c") {
			v, ok := r.GetVars().Get("it")
			vrt.Assert(ok && "c"+v == r.GetName(), "iteration-variable-is-bound-in-each-generated-role")
		}
	}
	vrt.Assert(root.IsEnabled() == (len(want) > 0), "an-aggregator-left-empty-is-disabled")
	vrt.Reach("loaded")
}

// c15Subst is the template model of the nested-iterator harness: every "{{ name }}" is replaced by the value of
// `name` on the variable stack (a template error if there is none); enabled expressions are all true.
func c15Subst(f template.Fields, confSvc template.ConfigurationService, parentPath string, varStack map[string]string, objStack map[string]interface{}, baseConfigStack map[string]string, cache map[string]texttemplate.Template, repo repos.IRepo) error {
	for _, field := range f {
		v := field.Get()
		if strings.HasPrefix(v, "{{enabled:") {
			field.Set("true")
			continue
		}
		for {
			i := strings.Index(v, "{{ ")
			if i < 0 {
				break
			}
			j := strings.Index(v[i:], " }}")
			if j < 0 {
				return errors.New("unterminated expression in " + parentPath)
			}
			val, ok := varStack[v[i+3:i+j]]
			if !ok {
				return errors.New("unknown variable " + v[i+3:i+j] + " in " + parentPath)
			}
			v = v[:i] + val + v[i+j+3:]
		}
		field.Set(v)
	}
	return nil
}

// An iterator nested in an iterated role, its range depending on the outer iteration variable (begin/end form):
// outer element o in 1..N yields a group g<o> holding the calls w<o>-1 .. w<o>-<o>; every generated role has both
// iteration variables bound to its own values; the same tree for every setting of the concurrency switches.
//verif:entry HarnessNestedIterator unwind=64 conform=12 preempt=0 sleepbound=0 reach=loaded stub=github.com/AliceO2Group/Control/common/utils.TimeTrack,github.com/jinzhu/copier.Copy
func HarnessNestedIterator() {
	template.VerifHook_Fields_Execute = c15Subst
	the.VerifHook_ConfSvc = func() configuration.Service { return nil }
	viper.Set("concurrentWorkflowTemplateProcessing", vrt.Bool("concurrent.children"))
	viper.Set("concurrentWorkflowTemplateIteratorProcessing", vrt.Bool("concurrent.iterator.children"))
	viper.Set("concurrentIteratorRoleExpansion", vrt.Bool("concurrent.iterator.expansion"))
	n := vrt.IntRange("outer.elements", 2, 3)

	inner := &iteratorRole{For: &iteratorRangeFor{Begin: "1", End: "{{ o }}", Var: "it"}, template: &callTemplate{callRole: *c15Call("w{{ o }}-{{ it }}", "w")}}
	group := &aggregatorTemplate{aggregatorRole: aggregatorRole{c15Base("g{{ o }}", "g"), aggregator{Roles: []Role{inner}}}}
	outer := &iteratorRole{For: &iteratorRangeFor{Begin: "1", End: []string{"0", "1", "2", "3"}[n], Var: "o"}, template: group}
	root := &aggregatorRole{c15Base("root", "root"), aggregator{Roles: []Role{outer}}}
	LinkChildrenToParents(root)
	outer.setParent(root)

	err := root.ProcessTemplates(nil, nil, map[string]string{})
	vrt.Trace("err", err)
	vrt.Assert(err == nil, "load-succeeds-without-template-errors")
	var got, want []string
	for _, g := range root.GetRoles() {
		got = append(got, g.GetName())
		for _, c := range g.GetRoles() {
			got = append(got, g.GetName()+"."+c.GetName())
			o, _ := c.GetVars().Get("o")
			it, _ := c.GetVars().Get("it")
			if cv, err := c.ConsolidatedVarStack(); err == nil {
				o, it = cv["o"], cv["it"]
			}
			vrt.Assert("w"+o+"-"+it == c.GetName(), "iteration-variables-are-bound-in-each-generated-role")
			vrt.Assert(c.GetParentRole() == Role(g) && c.GetPath() == "root."+g.GetName()+"."+c.GetName(), "generated-role-hangs-under-its-own-generated-parent")
		}
	}
	for o := 1; o <= n; o++ {
		os := string(rune('0' + o))
		want = append(want, "g"+os)
		for i := 1; i <= o; i++ {
			want = append(want, "g"+os+".w"+os+"-"+string(rune('0'+i)))
		}
	}
	vrt.Trace("got", strings.Join(got, ","), "want", strings.Join(want, ","))
	vrt.Assert(strings.Join(got, ",") == strings.Join(want, ","), "nested-iterator-yields-one-child-per-element-of-its-own-range")
	vrt.Reach("loaded")
}

// One iterator over 2..3 elements generating call roles, expanded concurrently or not: the children are exactly
// w1 .. wN in range order - under EVERY order in which the expansion goroutines run and finish (no pre-emption is
// needed for that: the parent blocks in Wait and any of them may run first; the reduction is told to respect the
// pre-emption bound, sleepbound=1, so that none of these orders is dropped - see DESIGN.md 2.4). Small on purpose.
//verif:entry HarnessIteratorExpansionOrder unwind=64 preempt=0 sleepbound=1 reach=loaded stub=github.com/AliceO2Group/Control/common/utils.TimeTrack,github.com/jinzhu/copier.Copy
//verif:thorough HarnessIteratorExpansionOrder preempt=1 sleepbound=1
func HarnessIteratorExpansionOrder() {
	template.VerifHook_Fields_Execute = c15Subst
	the.VerifHook_ConfSvc = func() configuration.Service { return nil }
	viper.Set("concurrentWorkflowTemplateProcessing", false)
	viper.Set("concurrentWorkflowTemplateIteratorProcessing", vrt.Bool("concurrent.iterator.children"))
	viper.Set("concurrentIteratorRoleExpansion", vrt.Bool("concurrent.iterator.expansion"))
	n := vrt.IntRange("elements", 2, 3)
	it := &iteratorRole{For: &iteratorRangeFor{Begin: "1", End: []string{"0", "1", "2", "3"}[n], Var: "it"}, template: &callTemplate{callRole: *c15Call("w{{ it }}", "w")}}
	root := &aggregatorRole{c15Base("root", "root"), aggregator{Roles: []Role{it}}}
	LinkChildrenToParents(root)
	it.setParent(root)

	err := root.ProcessTemplates(nil, nil, map[string]string{})
	vrt.Assert(err == nil, "load-succeeds-without-template-errors")
	var got, want []string
	for _, c := range root.GetRoles() {
		got = append(got, c.GetName())
		v := ""
		if cv, err := c.ConsolidatedVarStack(); err == nil {
			v = cv["it"]
		}
		vrt.Assert("w"+v == c.GetName(), "iteration-variables-are-bound-in-each-generated-role")
	}
	for i := 1; i <= n; i++ {
		want = append(want, "w"+string(rune('0'+i)))
	}
	vrt.Trace("got", strings.Join(got, ","), "want", strings.Join(want, ","))
	vrt.Assert(strings.Join(got, ",") == strings.Join(want, ","), "iterator-yields-one-child-per-element-in-range-order")
	vrt.Reach("loaded")
}
