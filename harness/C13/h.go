//go:build verif

package task

//verif:pkg core/task
//verif:hook configuration/template Fields.Execute
//verif:hook core/the ConfSvc

import (
	"errors"
	"strconv"
	texttemplate "text/template"

	"github.com/AliceO2Group/Control/common/controlmode"
	"github.com/AliceO2Group/Control/common/gera"
	"github.com/AliceO2Group/Control/common/utils/uid"
	"github.com/AliceO2Group/Control/configuration"
	"github.com/AliceO2Group/Control/configuration/template"
	"github.com/AliceO2Group/Control/core/controlcommands"
	"github.com/AliceO2Group/Control/core/repos"
	"github.com/AliceO2Group/Control/core/task/channel"
	"github.com/AliceO2Group/Control/core/task/taskclass"
	"github.com/AliceO2Group/Control/core/the"
	vrt "github.com/AliceO2Group/Control/zz_vrt"
	"github.com/valyala/fasttemplate"
)

var _ = fasttemplate.New

var c13Transports = []channel.TransportType{channel.DEFAULT, channel.ZEROMQ, channel.SHMEM}

func c13FmqClass(bind []channel.Inbound, connect []channel.Outbound) *taskclass.Class {
	c := &taskclass.Class{Defaults: gera.MakeMap[string, string](), Vars: gera.MakeMap[string, string](), Bind: bind, Connect: connect}
	c.Control.Mode = controlmode.FAIRMQ
	return c
}

// CONFIGURE of an environment with a binding task and a connecting task on different hosts:
//   - the inbound channel is told to bind exactly the endpoint that was allocated to it at launch
//     (tcp://*:<port> or its IPC path);
//   - an outbound channel naming the binder's channel by path, or by global alias, gets the binder's host and
//     allocated port (or IPC path) and the inbound side's transport;
//   - an explicit tcp:// or ipc:// target is passed through unchanged with the outbound's own transport;
//   - a target matching nothing fails the configuration.
// Channels are declared at role level or at task-template level.
//verif:entry HarnessChannelWiring unwind=32 conform=12 preempt=0 timers=lazy reach=bypath,byalias,explicit,unmatched stub=github.com/AliceO2Group/Control/common/utils.TimeTrack
func HarnessChannelWiring() {
	template.VerifHook_Fields_Execute = func(f template.Fields, confSvc template.ConfigurationService, parentPath string, varStack map[string]string, objStack map[string]interface{}, baseConfigStack map[string]string, cache map[string]texttemplate.Template, repo repos.IRepo) error {
		return nil // template evaluation is the identity on the literal values used here
	}
	the.VerifHook_ConfSvc = func() configuration.Service { return nil }
	env := uid.ID("2oDvieFrVTi")
	port := vrt.Uint64("port")
	vrt.Assume(port >= 9000 && port < 65536)
	inTransport := c13Transports[vrt.IntRange("in.transport", 0, 2)]
	outTransport := c13Transports[vrt.IntRange("out.transport", 0, 2)]
	ipc := vrt.Bool("in.ipc")
	atTemplateLevel := vrt.Bool("template.level")
	targetKind := vrt.IntRange("target", 0, 4)

	binder, brole := ftTask("binder", env, true)
	conn, crole := ftTask("conn", env, true)
	inb := channel.Inbound{Channel: channel.Channel{Name: "data", Type: "pull", Transport: inTransport, RateLogging: "0"}, Global: "readout", Addressing: channel.TCP}
	var endpoint channel.Endpoint = channel.NewBoundTcpEndpoint(port, inTransport)
	wantAddr := "tcp://host-binder:" + strconv.FormatUint(port, 10)
	wantBind := "tcp://*:" + strconv.FormatUint(port, 10)
	if ipc {
		inb.Addressing = channel.IPC
		endpoint = channel.NewIpcEndpoint("ipc:///tmp/o2ipc-verif", inTransport)
		wantAddr, wantBind = "ipc:///tmp/o2ipc-verif", "ipc:///tmp/o2ipc-verif"
	}
	// what the launch side recorded for the binder (scheduler.go: bindMap[ch.Name], bindMap["::"+ch.Global])
	binder.localBindMap = channel.BindMap{"data": endpoint, "::readout": endpoint}
	out := channel.Outbound{Channel: channel.Channel{Name: "out", Type: "push", Transport: outTransport, RateLogging: "0"}}
	switch targetKind {
	case 0:
		out.Target = "root.binder:data"
	case 1:
		out.Target = "::readout"
	case 2:
		out.Target = "tcp://Elsewhere-FLP042:1234" // (mixed case: passed through as written)
	case 3:
		out.Target = "ipc:///tmp/o2-Readout-STFB"
	case 4:
		out.Target = "root.nobody:data"
	}
	var bclass, cclass *taskclass.Class
	if atTemplateLevel {
		bclass, cclass = c13FmqClass([]channel.Inbound{inb}, nil), c13FmqClass(nil, []channel.Outbound{out})
	} else {
		brole.inbound, crole.outbound = []channel.Inbound{inb}, []channel.Outbound{out}
		bclass, cclass = c13FmqClass(nil, nil), c13FmqClass(nil, nil)
	}
	binder.GetTaskClass = func() *taskclass.Class { return bclass }
	conn.GetTaskClass = func() *taskclass.Class { return cclass }

	captured := map[string]controlcommands.PropertyMap{}
	var w *ftWorld
	w = ftManager(Tasks{binder, conn}, func(cmd controlcommands.MesosCommand, rcv controlcommands.MesosCommandTarget) error {
		tc, ok := cmd.(*controlcommands.MesosCommand_Transition)
		if !ok {
			return errors.New("unexpected command")
		}
		captured[rcv.TaskId.Value] = tc.Arguments
		res := controlcommands.NewMesosCommandResponse_Transition(tc, nil, "CONFIGURED", rcv.TaskId.Value)
		go w.servent.ProcessResponse(res, rcv)
		return nil
	})
	err := w.m.configureTasks(env, Tasks{binder, conn})
	if targetKind == 4 {
		vrt.Assert(err != nil, "unmatched-target-fails-the-configuration")
		vrt.Assert(len(captured) == 0, "nothing-is-sent-when-a-target-cannot-be-resolved")
		vrt.Reach("unmatched")
		return
	}
	vrt.Assert(err == nil, "configuration-succeeds")
	bargs, cargs := captured[binder.taskId], captured[conn.taskId]
	vrt.Assert(bargs["chans.data.0.address"] == wantBind && bargs["chans.data.0.method"] == "bind", "inbound-channel-binds-exactly-the-allocated-endpoint")
	vrt.Assert(bargs["chans.data.0.transport"] == string(inTransport), "inbound-channel-keeps-its-transport")
	vrt.Assert(cargs["chans.out.0.method"] == "connect", "outbound-channel-connects")
	switch targetKind {
	case 0, 1:
		vrt.Assert(cargs["chans.out.0.address"] == wantAddr, "outbound-channel-gets-the-host-and-port-where-the-inbound-was-bound")
		vrt.Assert(cargs["chans.out.0.transport"] == string(inTransport), "outbound-channel-takes-the-inbound-side's-transport")
		if targetKind == 0 {
			vrt.Reach("bypath")
		} else {
			vrt.Reach("byalias")
		}
	case 2, 3:
		vrt.Assert(cargs["chans.out.0.address"] == out.Target, "explicit-target-is-passed-through-unchanged")
		vrt.Assert(cargs["chans.out.0.transport"] == string(outTransport), "explicit-target-keeps-the-outbound-transport")
		vrt.Reach("explicit")
	}
}

// Two tasks binding different endpoints (another port, or the same port number on another host) under the same
// global alias are rejected.
//verif:entry HarnessGlobalAliasConflict unwind=32 conform=12 preempt=0 timers=lazy reach=conflict stub=github.com/AliceO2Group/Control/common/utils.TimeTrack
func HarnessGlobalAliasConflict() {
	template.VerifHook_Fields_Execute = func(f template.Fields, confSvc template.ConfigurationService, parentPath string, varStack map[string]string, objStack map[string]interface{}, baseConfigStack map[string]string, cache map[string]texttemplate.Template, repo repos.IRepo) error {
		return nil
	}
	the.VerifHook_ConfSvc = func() configuration.Service { return nil }
	env := uid.ID("2oDvieFrVTi")
	p1, p2 := vrt.Uint64("port1"), vrt.Uint64("port2")
	vrt.Assume(p1 >= 9000 && p1 < 65536 && p2 >= 9000 && p2 < 65536)
	a, _ := ftTask("a", env, true)
	b, _ := ftTask("b", env, true)
	class := c13FmqClass(nil, nil)
	a.GetTaskClass = func() *taskclass.Class { return class }
	b.GetTaskClass = func() *taskclass.Class { return class }
	a.localBindMap = channel.BindMap{"::shared": channel.NewBoundTcpEndpoint(p1, channel.DEFAULT)}
	b.localBindMap = channel.BindMap{"::shared": channel.NewBoundTcpEndpoint(p2, channel.DEFAULT)}
	a.hostname, b.hostname = "flp1", "flp1"
	otherHost := vrt.Bool("other.host")
	if otherHost {
		b.hostname = "flp2" // another machine: the two endpoints differ even when the agents allocated the same port number
	}
	var w *ftWorld
	w = ftManager(Tasks{a, b}, func(cmd controlcommands.MesosCommand, rcv controlcommands.MesosCommandTarget) error {
		tc := cmd.(*controlcommands.MesosCommand_Transition)
		go w.servent.ProcessResponse(controlcommands.NewMesosCommandResponse_Transition(tc, nil, "CONFIGURED", rcv.TaskId.Value), rcv)
		return nil
	})
	err := w.m.configureTasks(env, Tasks{a, b})
	vrt.Trace("configure error:", err)
	// (two tasks can never bind the very same endpoint, so only the conflict is a meaningful case)
	vrt.Assume(otherHost || p1 != p2)
	vrt.Assert(err != nil, "two-different-endpoints-claiming-one-global-alias-are-rejected")
	vrt.Reach("conflict")
}
