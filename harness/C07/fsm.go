//go:build verif

package environment

//verif:pkg core/environment

import (
	"errors"

	"github.com/AliceO2Group/Control/core/workflow/callable"
	vrt "github.com/AliceO2Group/Control/zz_vrt"
)

// The state-machine side of C07: every attempt to start a run consults the shared counter (also when an
// earlier attempt of the same environment was cancelled or its tasks failed), the number the run carries is
// the one the counter returned, and without a number there is no start.
//
//verif:entry HarnessEveryStartDrawsANumber unwind=96 conform=12 preempt=0 reach=retry,nonumber stub=github.com/AliceO2Group/Control/common/utils.TimeTrack nosched=github.com/AliceO2Group/Control/core/the.mu
func HarnessEveryStartDrawsANumber() {
	rn1, rn2 := vrt.Uint32("rn1"), vrt.Uint32("rn2")
	vrt.Assume(rn1 > 0 && rn2 > rn1)
	firstAttempt := vrt.IntRange("first.attempt", 0, 3) // 0 cancelled by a before hook, 1 tasks fail, 2 no number, 3 run and stop
	rec := &fenvRec{}
	hookFails := firstAttempt == 0
	rec.onCall = func(c *callable.Call) error {
		if hookFails {
			hookFails = false
			return errors.New("hook failed")
		}
		return nil
	}
	conf := &fenvConf{}
	conf.rnFails = func() bool { return firstAttempt == 2 && conf.rnCalls == 1 }
	junk := vrt.Uint32("number.next.to.the.error") // a failed allocation may come with a number (the one a lost CAS tried): it must not be used
	conf.rnJunk = func() uint32 { return junk }
	conf.rnNext = func() uint32 {
		if conf.rnCalls == 1 {
			return rn1
		}
		return rn2
	}
	env := fenvNew(conf, rec, "CONFIGURED", []fenvHook{{name: "h", trigger: "before_START_ACTIVITY+10", critical: true}})
	tm := fenvTaskman(rec, env, func(n int) bool { return firstAttempt == 1 && n == 0 })
	start, stop := NewStartActivityTransition(tm), NewStopActivityTransition(tm)
	err := env.TryTransition(start)
	if firstAttempt == 3 {
		vrt.Assert(err == nil && env.GetCurrentRunNumber() == rn1, "run-carries-the-number-the-counter-returned")
		vrt.Assert(env.TryTransition(stop) == nil, "stop-succeeds")
	} else {
		vrt.Assert(err != nil && env.CurrentState() == "CONFIGURED", "first-attempt-fails-and-stays-configured")
		if firstAttempt == 2 {
			vrt.Assert(rec.count("taskman:message") == 0 && env.GetCurrentRunNumber() == 0, "no-number-no-start")
			vrt.Reach("nonumber")
		}
	}
	vrt.Assert(env.TryTransition(start) == nil && env.CurrentState() == "RUNNING", "second-attempt-succeeds")
	vrt.Assert(conf.rnCalls == 2, "every-attempt-to-start-draws-from-the-shared-counter")
	vrt.Assert(env.GetCurrentRunNumber() == rn2, "run-carries-the-freshly-drawn-number")
	vrt.Reach("retry")
}
