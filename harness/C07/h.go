//go:build verif

package cfgbackend

//verif:pkg configuration/cfgbackend

import (
	"encoding/base64"
	"errors"
	"fmt"
	"io"
	"net/http"
	"net/http/httptest"
	"strconv"
	"strings"

	vrt "github.com/AliceO2Group/Control/zz_vrt"
	"github.com/hashicorp/consul/api"
)

// ---- model of one Consul KV entry, as seen by one caller of GetNextUInt32 --------------------------
//
// Thread-modular: the caller under test performs Get and then CAS; everything the rest of the world
// (other cores, other environments, foreign writers) does in between is one arbitrary interference
// step constrained only by Consul's contract: every write gives the key a strictly larger
// ModifyIndex, and the other writers of this counter only ever increase it.

type c07Entry struct {
	present bool
	num     uint32
	garbage bool // the stored text is not a number
	index   uint64
}

type c07Model struct {
	e             c07Entry
	initial       c07Entry
	atCAS         c07Entry // state the CAS was evaluated against
	gotGet        bool
	gotCAS        bool
	casOK         bool // the CAS was applied
	casReplied    bool // ... and the caller was told so
	unconditional bool // the counter was written with a plain Put
}

var c07 *c07Model

func (e c07Entry) text() string {
	if e.garbage {
		return "12x"
	}
	return strconv.FormatUint(uint64(e.num), 10)
}

func c07New() *c07Model {
	m := &c07Model{}
	m.e.present = vrt.Bool("present")
	if m.e.present {
		m.e.num = vrt.Uint32("v0")
		m.e.garbage = vrt.Bool("garbage")
		m.e.index = vrt.Uint64("i0")
		vrt.Assume(m.e.index >= 1 && m.e.index < 1<<62)
	}
	m.initial = m.e
	return m
}

// get: the consistent read. Returns (found, text, index, transportError).
func (m *c07Model) get() (bool, string, uint64, bool) {
	m.gotGet = true
	if vrt.Bool("get.fails") {
		return false, "", 0, true
	}
	return m.e.present, m.e.text(), m.e.index, false
}

// interfere: what everybody else did between the read and the compare-and-set.
func (m *c07Model) interfere() {
	if !vrt.Bool("interfered") {
		return
	}
	n := c07Entry{present: true, num: vrt.Uint32("v1"), index: vrt.Uint64("i1")}
	vrt.Assume(n.index > m.e.index && n.index < 1<<62)
	if m.e.present && !m.e.garbage {
		vrt.Assume(n.num > m.e.num) // the other writers of the counter only increase it
	}
	m.e = n
}

// cas: compare-and-set on ModifyIndex (0 = create only). Returns (applied, transportError).
func (m *c07Model) cas(text string, idx uint64) (bool, bool) {
	m.interfere()
	m.gotCAS = true
	m.atCAS = m.e
	match := (idx == 0 && !m.e.present) || (m.e.present && idx == m.e.index)
	lost := vrt.Bool("cas.replylost") // the request may be applied although the caller sees an error
	if vrt.Bool("cas.fails") && !lost {
		return false, true
	}
	if match {
		n, err := strconv.ParseUint(text, 10, 32)
		vrt.Assert(err == nil, "counter-is-written-as-a-decimal-uint32")
		ni := vrt.Uint64("i2")
		vrt.Assume(ni > m.e.index && ni < 1<<62)
		m.e = c07Entry{present: true, num: uint32(n), index: ni}
		m.casOK = true
	}
	if lost {
		return false, true
	}
	m.casReplied = match
	return match, false
}

// put: an unconditional write (not what the counter should ever be advanced with: it is applied whatever
// happened since the read).
func (m *c07Model) put(text string) bool {
	m.interfere()
	m.gotCAS = true
	m.unconditional = true
	m.atCAS = m.e
	if vrt.Bool("cas.fails") {
		return true
	}
	n, err := strconv.ParseUint(text, 10, 32)
	vrt.Assert(err == nil, "counter-is-written-as-a-decimal-uint32")
	ni := vrt.Uint64("i2")
	vrt.Assume(ni > m.e.index && ni < 1<<62)
	m.e = c07Entry{present: true, num: uint32(n), index: ni}
	m.casOK, m.casReplied = true, true
	return false
}

// ---- the two ways the real ConsulSource reaches the model ------------------------------------------

// (a) under the symbolic interpreter the two methods of the Consul client are replaced by these:
func c07KVGet(k *api.KV, key string, q *api.QueryOptions) (*api.KVPair, *api.QueryMeta, error) {
	vrt.Assert(q != nil && q.RequireConsistent, "read-is-consistent")
	found, text, idx, fail := c07.get()
	if fail {
		return nil, nil, errors.New("Unexpected response code: 500")
	}
	if !found {
		return nil, &api.QueryMeta{}, nil
	}
	return &api.KVPair{Key: key, Value: []byte(text), ModifyIndex: idx}, &api.QueryMeta{LastIndex: idx}, nil
}

func c07KVCAS(k *api.KV, p *api.KVPair, q *api.WriteOptions) (bool, *api.WriteMeta, error) {
	ok, fail := c07.cas(string(p.Value), p.ModifyIndex)
	if fail {
		return false, nil, errors.New("Unexpected response code: 500")
	}
	return ok, &api.WriteMeta{}, nil
}

func c07KVPut(k *api.KV, p *api.KVPair, q *api.WriteOptions) (*api.WriteMeta, error) {
	if c07.put(string(p.Value)) {
		return nil, errors.New("Unexpected response code: 500")
	}
	return &api.WriteMeta{}, nil
}

// (b) natively (replay of a counterexample) the real Consul client talks HTTP to this server:
func c07Server() *httptest.Server {
	return httptest.NewServer(http.HandlerFunc(func(w http.ResponseWriter, r *http.Request) {
		key := strings.TrimPrefix(r.URL.Path, "/v1/kv/")
		switch r.Method {
		case "GET":
			found, text, idx, fail := c07.get()
			switch {
			case fail:
				http.Error(w, "boom", 500)
			case !found:
				w.Header().Set("X-Consul-Index", "1")
				http.Error(w, "", 404)
			default:
				w.Header().Set("X-Consul-Index", strconv.FormatUint(idx, 10))
				fmt.Fprintf(w, `[{"Key":%q,"Value":%q,"ModifyIndex":%d,"CreateIndex":1,"LockIndex":0,"Flags":0}]`, key, base64.StdEncoding.EncodeToString([]byte(text)), idx)
			}
		case "PUT":
			body, _ := io.ReadAll(r.Body)
			if !r.URL.Query().Has("cas") {
				if c07.put(string(body)) {
					http.Error(w, "boom", 500)
					return
				}
				fmt.Fprintf(w, "true")
				return
			}
			idx, _ := strconv.ParseUint(r.URL.Query().Get("cas"), 10, 64)
			ok, fail := c07.cas(string(body), idx)
			if fail {
				http.Error(w, "boom", 500)
				return
			}
			fmt.Fprintf(w, "%v", ok)
		}
	}))
}

func c07Source() (*ConsulSource, func()) {
	if vrt.Symbolic() {
		return &ConsulSource{kv: &api.KV{}}, func() {}
	}
	srv := c07Server()
	cc, err := NewConsulSource(strings.TrimPrefix(srv.URL, "http://"))
	if err != nil {
		panic(err)
	}
	return cc, srv.Close
}

// ---- the property ------------------------------------------------------------------------------------
//
// Invariant carried by the shared counter: its value is >= every run number ever handed out. One call
// of GetNextUInt32 from an arbitrary such state, under arbitrary interference and faults, must
//   - on success return a number strictly larger than the counter held when it was advanced (hence
//     larger than every number handed out before, to anybody) and leave the counter equal to it;
//   - never decrease the counter (a number may be burnt by a fault, never reused);
//   - fail when the counter could not be advanced atomically.
// Uniqueness and monotonicity over any number of callers, restarts and crash points follow by induction
// on the sequence of successful compare-and-set operations (each strictly increases the counter and
// returns the new value); a caller dying between the two calls leaves the counter untouched.

//verif:entry HarnessNextRunNumber unwind=6 conform=12 reach=success,created,refused,getfail,casfail,garbage replace=(*github.com/hashicorp/consul/api.KV).Get=>c07KVGet,(*github.com/hashicorp/consul/api.KV).CAS=>c07KVCAS,(*github.com/hashicorp/consul/api.KV).Put=>c07KVPut
func HarnessNextRunNumber() {
	c07 = c07New()
	cc, closeFn := c07Source()
	defer closeFn()
	r, err := cc.GetNextUInt32("/o2/runtime/aliecs/run_number")
	m := c07
	vrt.Assert(m.gotGet, "counter-was-read")
	// never decreases, index never decreases
	if m.initial.present && !m.initial.garbage && !m.e.garbage {
		vrt.Assert(m.e.num >= m.initial.num, "counter-never-decreases")
	}
	vrt.Assert(m.e.index >= m.initial.index, "modify-index-never-decreases")
	vrt.Assert(!m.unconditional, "counter-is-only-advanced-by-compare-and-set")
	if err == nil {
		vrt.Assert(m.gotCAS && m.casOK && m.casReplied, "success-only-after-an-applied-compare-and-set")
		vrt.Assert(m.e.present && m.e.num == r, "returned-number-is-what-the-counter-now-holds")
		if m.atCAS.present {
			vrt.Assert(!m.atCAS.garbage, "garbage-counter-is-not-advanced")
			vrt.Assert(r > m.atCAS.num, "run-number-strictly-larger-than-the-counter-it-advanced")
			vrt.Assert(r == m.atCAS.num+1, "run-number-is-the-successor")
			vrt.Reach("success")
		} else {
			vrt.Assert(r == 1, "first-run-number-is-one")
			vrt.Reach("created")
		}
		return
	}
	// failure: nothing handed out
	if m.gotCAS && !m.casOK {
		vrt.Assert(m.e == m.atCAS, "refused-or-failed-write-leaves-the-counter-alone")
	}
	switch {
	case !m.gotCAS && m.initial.present && m.initial.garbage:
		vrt.Reach("garbage")
	case !m.gotCAS:
		vrt.Reach("getfail")
	case m.casOK:
		vrt.Reach("casfail") // applied but the reply was lost: the number is burnt, not reused
	default:
		vrt.Reach("refused")
	}
}
