//go:build verif

package environment

//verif:pkg core/environment

import (
	"errors"

	"github.com/AliceO2Group/Control/common/event"
	"github.com/AliceO2Group/Control/core/task"
	"github.com/AliceO2Group/Control/core/task/sm"
	"github.com/AliceO2Group/Control/core/workflow"
	vrt "github.com/AliceO2Group/Control/zz_vrt"
)

// The environment side: the real CONFIGURE / START_ACTIVITY / STOP_ACTIVITY / RESET transition bodies against a
// task manager that answers with an arbitrary verdict. The request succeeds and the destination is reported if
// and only if the task manager reported success; otherwise the environment stays in the source state and the
// caller gets the error. With no active task CONFIGURE sends nothing and succeeds at once.
//
//verif:entry HarnessEnvironmentFollowsTaskVerdict unwind=96 preempt=0 reach=ok,failed,nothing stub=github.com/AliceO2Group/Control/common/utils.TimeTrack nosched=github.com/AliceO2Group/Control/core/the.mu
func HarnessEnvironmentFollowsTaskVerdict() {
	ev := vrt.IntRange("event", 0, 3)
	names := []string{"CONFIGURE", "START_ACTIVITY", "STOP_ACTIVITY", "RESET"}
	src := []string{"DEPLOYED", "CONFIGURED", "RUNNING", "CONFIGURED"}[ev]
	dst := []string{"CONFIGURED", "RUNNING", "CONFIGURED", "DEPLOYED"}[ev]
	ntasks := vrt.IntRange("tasks", 0, 2)
	tasksFail := vrt.Bool("tasks.fail")
	rec := &fenvRec{}
	env := fenvNew(&fenvConf{}, rec, src, nil)
	var roles []workflow.Role
	for i := 0; i < ntasks; i++ {
		roles = append(roles, workflow.VerifTaskRole("t"+string(rune('0'+i)), vrt.Bool("critical"), &task.Task{}))
	}
	env.workflow = workflow.NewAggregatorRole("root", roles)
	workflow.LinkChildrenToParents(env.workflow)
	workflow.VerifAttach(env.workflow, env.wfAdapter)
	allInactive := ntasks > 0 && vrt.Bool("every.task.already.dead") // deployed, then all its (non-critical) tasks died: roles INACTIVE
	if allInactive {
		for _, r := range roles {
			workflow.VerifSetStatus(r, task.INACTIVE)
		}
	}
	// a task that announced an internal error a moment ago and is still alive: its role is ACTIVE and in ERROR; the
	// transition commands it like any other (and learns from its answer that it cannot follow)
	if !allInactive {
		for _, r := range roles {
			if vrt.Bool("task.already.in.error") {
				workflow.VerifSetState(r, sm.ERROR)
			}
		}
	}
	commanded := -1
	// the task manager answers with the verdict - and, like the real one, with an error when asked to configure nothing
	tm := &task.Manager{MessageChannel: make(chan *task.TaskmanMessage, 4)}
	go func() {
		for msg := range tm.MessageChannel {
			rec.add("taskman:message")
			commanded = task.VerifMessageTaskCount(msg)
			var err error
			if tasksFail || (ev == 0 && task.VerifMessageTaskCount(msg) == 0) {
				err = errors.New("a critical task could not make the transition")
			}
			env.stateChangedCh <- &event.TasksStateChangedEvent{EnvironmentId: env.Id(), TaskStateChangedErr: err}
		}
	}()
	var tr Transition
	switch ev {
	case 0:
		tr = NewConfigureTransition(tm)
	case 1:
		tr = NewStartActivityTransition(tm)
	case 2:
		tr = NewStopActivityTransition(tm)
	case 3:
		tr = NewResetTransition(tm)
	}
	err := env.TryTransition(tr)
	sent := rec.count("taskman:message")
	if ev == 0 && (ntasks == 0 || allInactive) {
		vrt.Assert(sent == 0 && err == nil && env.CurrentState() == dst, "configure-with-nothing-to-command-succeeds-at-once")
		vrt.Reach("nothing")
		return
	}
	vrt.Assert(sent == 1, "one-command-per-transition")
	if !allInactive {
		vrt.Assert(commanded == ntasks, "every-active-task-is-commanded-whatever-state-it-is-in")
	}
	if tasksFail {
		vrt.Assert(err != nil, "task-failure-is-returned-to-the-caller")
		vrt.Assert(env.CurrentState() == src, "destination-never-reported-after-a-task-failure")
		vrt.Reach("failed")
	} else {
		vrt.Assert(err == nil && env.CurrentState() == names[ev][:0]+dst, "acknowledged-transition-reports-the-destination")
		vrt.Reach("ok")
	}
}
