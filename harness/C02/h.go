//go:build verif

package task

//verif:pkg core/task

import (
	"errors"
	"time"

	"github.com/AliceO2Group/Control/common/event"
	"github.com/AliceO2Group/Control/common/utils/uid"
	"github.com/AliceO2Group/Control/core/controlcommands"
	"github.com/AliceO2Group/Control/core/task/taskclass"
	vrt "github.com/AliceO2Group/Control/zz_vrt"
	mesos "github.com/mesos/mesos-go/api/v1/lib"
	"github.com/spf13/viper"
)

const (
	c02OK = iota
	c02ErrReply
	c02SendFail
	c02Silent
)

// A task transition (the body of START/STOP/RESET as the task manager executes it) over 0..N tasks, each
// critical or not, each with its own outcome: acknowledged, error reply, undeliverable, silent.
// It succeeds if and only if every critical task acknowledged it; failures of non-critical tasks never make
// it fail; with nothing to command it succeeds at once.
//
//verif:entry HarnessTransitionTasks unwind=16 timers=lazy preempt=1 reach=ok,failed,empty stub=github.com/AliceO2Group/Control/common/utils.TimeTrack
//verif:thorough HarnessTransitionTasks preempt=1 paths=1000000
func HarnessTransitionTasks() {
	env := uid.ID("2oDvieFrVTi")
	n := vrt.IntRange("tasks", 0, 2+vrt.Tier())
	names := []string{"a", "b", "c"}
	var tasks Tasks
	outcome := map[string]int{}
	critical := map[string]bool{}
	executorLost := map[string]bool{}
	for i := 0; i < n; i++ {
		crit := vrt.Bool("critical")
		t, _ := ftTask(names[i], env, crit)
		tasks = append(tasks, t)
		outcome[t.taskId] = vrt.IntRange("outcome", c02OK, c02Silent)
		critical[t.taskId] = crit
		if o := outcome[t.taskId]; n <= 2 && (o == c02SendFail || o == c02Silent) { // (with three tasks: without, for the size of the exploration)
			executorLost[t.taskId] = vrt.Bool("executor.lost.while.the.command.is.in.flight")
		}
	}
	var w *ftWorld
	w = ftManager(tasks, func(cmd controlcommands.MesosCommand, rcv controlcommands.MesosCommandTarget) error {
		switch outcome[rcv.TaskId.Value] {
		case c02SendFail, c02Silent:
			// the command may be undeliverable / unanswered because the executor has just died: Mesos told the core,
			// which took the executor id off the task (it is no longer "locked") - the task is as critical as before
			if executorLost[rcv.TaskId.Value] {
				w.m.HandleExecutorFailed(&event.ExecutorFailedEvent{ExecutorId: mesos.ExecutorID{Value: rcv.ExecutorId.Value}})
			}
			if outcome[rcv.TaskId.Value] == c02SendFail {
				return errors.New("cannot send to " + rcv.TaskId.Value)
			}
			return nil
		}
		var e error
		if outcome[rcv.TaskId.Value] == c02ErrReply {
			e = errors.New("task " + rcv.TaskId.Value + " did not reach the expected state")
		}
		tcmd := cmd.(*controlcommands.MesosCommand_Transition)
		res := controlcommands.NewMesosCommandResponse_Transition(tcmd, e, "whatever", rcv.TaskId.Value)
		go w.servent.ProcessResponse(res, rcv)
		return nil
	})
	err := w.m.transitionTasks(env, tasks, "CONFIGURED", "START", "RUNNING", controlcommands.PropertyMap{"runNumber": "42"})
	allCriticalOK := true
	for id, o := range outcome {
		if critical[id] && o != c02OK {
			allCriticalOK = false
		}
	}
	if n == 0 {
		vrt.Assert(err == nil, "nothing-to-command-succeeds-at-once")
		vrt.Reach("empty")
		return
	}
	if allCriticalOK {
		vrt.Assert(err == nil, "non-critical-failures-never-fail-a-transition")
		vrt.Reach("ok")
	} else {
		vrt.Assert(err != nil, "a-critical-task-that-did-not-acknowledge-fails-the-transition")
		vrt.Reach("failed")
	}
}

// The critical trait of a deployed task must not depend on housekeeping: the tasks look their class up in the
// manager's class cache, which every workflow load cleans up (entries past their time-to-live whose class no task
// in the roster uses any more). A single critical task answering with an error fails the transition whether or
// not a cleanup ran before and however old its cache entry is.
//
//verif:entry HarnessCriticalTraitSurvivesClassCleanup unwind=16 timers=lazy preempt=1 reach=cleaned,untouched stub=github.com/AliceO2Group/Control/common/utils.TimeTrack
func HarnessCriticalTraitSurvivesClassCleanup() {
	env := uid.ID("2oDvieFrVTi")
	t, _ := ftTask("a", env, true)
	other, _ := ftTask("b", "", false) // a class nobody uses any more
	var w *ftWorld
	w = ftManager(Tasks{t}, func(cmd controlcommands.MesosCommand, rcv controlcommands.MesosCommandTarget) error {
		tcmd := cmd.(*controlcommands.MesosCommand_Transition)
		res := controlcommands.NewMesosCommandResponse_Transition(tcmd, errors.New("task did not reach the expected state"), "whatever", rcv.TaskId.Value)
		go w.servent.ProcessResponse(res, rcv)
		return nil
	})
	viper.Set("taskClassCacheTTL", 168*time.Hour)
	for _, x := range []*Task{t, other} {
		x := x
		w.m.classes.UpdateClass(x.className, x.GetTaskClass())
		if vrt.Bool("class.cache.entry.expired") {
			cl, _ := w.m.classes.GetClass(x.className)
			cl.UpdatedTimestamp = time.Now().Add(-200 * time.Hour)
		}
		x.GetTaskClass = func() *taskclass.Class { return w.m.GetTaskClass(x.className) }
	}
	if vrt.Bool("class.cache.cleanup.before") {
		w.m.removeInactiveClasses()
		vrt.Reach("cleaned")
	} else {
		vrt.Reach("untouched")
	}
	vrt.Assert(t.GetTraits().Critical, "a-deployed-task-keeps-its-critical-trait")
	err := w.m.transitionTasks(env, Tasks{t}, "CONFIGURED", "START", "RUNNING", controlcommands.PropertyMap{"runNumber": "42"})
	vrt.Assert(err != nil, "a-critical-task-that-did-not-acknowledge-fails-the-transition")
}
