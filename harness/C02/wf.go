//go:build verif

package workflow

//verif:pkg core/workflow

import (
	"github.com/AliceO2Group/Control/common/gera"
	"github.com/AliceO2Group/Control/core/task"
)

// VerifTaskRole builds an ACTIVE task role around a deployed task (harness helper: the type is unexported).
func VerifTaskRole(name string, critical bool, t *task.Task) Role {
	r := &taskRole{
		roleBase: roleBase{Name: name, Defaults: gera.MakeMap[string, string](), Vars: gera.MakeMap[string, string](), UserVars: gera.MakeMap[string, string]()},
		Traits:   task.Traits{Critical: critical},
		Task:     t,
	}
	r.status.status = task.ACTIVE
	if t != nil {
		t.SetParent(r)
	}
	return r
}
