//go:build verif

package environment

//verif:pkg core/environment

import (
	"github.com/AliceO2Group/Control/core/task"
	"github.com/AliceO2Group/Control/core/task/sm"
	"github.com/AliceO2Group/Control/core/workflow"
	vrt "github.com/AliceO2Group/Control/zz_vrt"
)

// DEPLOY of an environment with two task roles (the second critical or not) against a task manager that, once asked
// to acquire the tasks, reports each of them ACTIVE, UNDEPLOYABLE, crashed (state ERROR) or not at all, each report coming from its own
// goroutine as status updates do. Time passes (the deployment timeout fires) only when nothing else can happen.
//   - every task reported active: DEPLOY succeeds, however the reports interleave with the waiting loop;
//   - a critical task undeployable or silent: DEPLOY fails and the environment stays in STANDBY.
//
//verif:entry HarnessDeployWaitsForActiveTasks unwind=96 preempt=1 lazyarrive=1 timers=lazy reach=deployed,failed stub=github.com/AliceO2Group/Control/common/utils.TimeTrack nosched=github.com/AliceO2Group/Control/core/the.mu
func HarnessDeployWaitsForActiveTasks() {
	const (
		active = iota
		undeployable
		crashes // launched and fails at once: its role goes to ERROR
		silent
	)
	outcome := []int{vrt.IntRange("outcome", active, silent), vrt.IntRange("outcome", active, silent)}
	secondCritical := vrt.Bool("second.critical")
	if !secondCritical {
		vrt.Assume(outcome[1] != undeployable) // (the task manager only declares critical roles undeployable)
	}
	rec := &fenvRec{}
	env := fenvNew(&fenvConf{}, rec, "STANDBY", nil)
	t1 := workflow.VerifTaskRole("t1", true, nil)
	t2 := workflow.VerifTaskRole("t2", secondCritical, nil)
	for _, r := range []workflow.Role{t1, t2} {
		workflow.VerifSetStatus(r, task.INACTIVE)
	}
	env.workflow = workflow.NewAggregatorRole("root", []workflow.Role{t1, t2})
	workflow.LinkChildrenToParents(env.workflow)
	workflow.VerifAttach(env.workflow, env.wfAdapter)
	env.workflow.GetVars().Set("deploy_timeout", "400ms") // (keeps native replays short; under the interpreter the timeout fires when nothing else can happen)
	tm := &task.Manager{MessageChannel: make(chan *task.TaskmanMessage, 4)}
	go func() {
		for range tm.MessageChannel {
			rec.add("taskman:acquire")
			for i, r := range []workflow.Role{t1, t2} {
				r, o := r, outcome[i]
				switch o {
				case active:
					go r.(workflow.PublicUpdatable).UpdateStatus(task.ACTIVE)
				case undeployable:
					go r.(workflow.PublicUpdatable).UpdateStatus(task.UNDEPLOYABLE)
				case crashes:
					go r.(workflow.PublicUpdatable).UpdateState(sm.ERROR)
				}
			}
		}
	}()
	err := env.TryTransition(NewDeployTransition(tm, nil, nil))
	vrt.Trace("deploy:", err, "root status", env.workflow.GetStatus().String())
	if outcome[0] == active && outcome[1] == active {
		vrt.Assert(err == nil && env.CurrentState() == "DEPLOYED", "deploy-succeeds-when-every-task-became-active-in-time")
		vrt.Reach("deployed")
	} else if outcome[0] == active && !secondCritical {
		vrt.Assert(err == nil && env.CurrentState() == "DEPLOYED", "a-non-critical-task-that-did-not-become-active-does-not-fail-the-deployment")
	} else {
		vrt.Assert(err != nil && env.CurrentState() == "STANDBY", "deploy-fails-when-a-critical-task-did-not-become-active")
		vrt.Reach("failed")
	}
}
