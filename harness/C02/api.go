//go:build verif

package core

//verif:pkg core

import (
	"context"

	"github.com/AliceO2Group/Control/core/environment"
	pb "github.com/AliceO2Group/Control/core/protos"
	vrt "github.com/AliceO2Group/Control/zz_vrt"
)

var c02Types = []pb.ControlEnvironmentRequest_Optype{pb.ControlEnvironmentRequest_CONFIGURE, pb.ControlEnvironmentRequest_START_ACTIVITY,
	pb.ControlEnvironmentRequest_STOP_ACTIVITY, pb.ControlEnvironmentRequest_RESET}
var c02Src = []string{"DEPLOYED", "CONFIGURED", "RUNNING", "CONFIGURED"}
var c02Dst = []string{"CONFIGURED", "RUNNING", "CONFIGURED", "DEPLOYED"}
var c02States = []string{"STANDBY", "DEPLOYED", "CONFIGURED", "RUNNING", "ERROR"}

// One ControlEnvironment request through the real RPC handler, for every request type and every state of the
// environment, with the caller still there or already gone (context cancelled), the task manager answering the task part with an arbitrary verdict, the GO_ERROR the handler
// falls back to going through or being cancelled by a critical hook of its own (the state is then forced):
//   - a legal request whose critical task acknowledged: no error, the reply reports the destination state;
//   - a legal request whose critical task did not acknowledge: the request returns an error, the destination is
//     not reported, the environment ends in ERROR;
//   - a request that is not legal in the current state: an error, no task command, the environment ends in ERROR.
//
//verif:entry HarnessControlEnvironmentRequest unwind=96 preempt=0 reach=ok,task-failure,illegal stub=encoding/json.Marshal,(github.com/AliceO2Group/Control/core/protos.ControlEnvironmentRequest_Optype).String,github.com/AliceO2Group/Control/common/utils.TimeTrack,github.com/AliceO2Group/Control/common/utils.TimeTrackFunction,(*github.com/AliceO2Group/Control/core.RpcServer).logMethod,(*github.com/AliceO2Group/Control/core.RpcServer).logMethodHandled nosched=github.com/AliceO2Group/Control/core/the.mu
func HarnessControlEnvironmentRequest() {
	ev := vrt.IntRange("request", 0, 3)
	state := c02States[vrt.IntRange("state", 0, len(c02States)-1)]
	taskFails := vrt.Bool("task.part.fails")
	goErrorFails := vrt.Bool("go.error.is.cancelled.by.its.own.hook")
	w := environment.VerifNewAPIWorld(state, func(n int) bool { return taskFails }, goErrorFails)
	srv := &RpcServer{state: &globalState{environments: w.Envs, taskman: w.Taskman}}
	ctx, cancel := context.WithCancel(context.Background())
	defer cancel()
	if vrt.Bool("caller.is.gone") { // the client's deadline expired (or it disconnected) while the request was waiting or running
		cancel()
	}
	reply, err := srv.ControlEnvironment(ctx, &pb.ControlEnvironmentRequest{Id: w.Env.Id().String(), Type: c02Types[ev]})
	legal := state == c02Src[ev]
	switch {
	case legal && !taskFails:
		vrt.Assert(err == nil && reply != nil && reply.State == c02Dst[ev] && w.Env.CurrentState() == c02Dst[ev], "acknowledged-request-reports-the-destination")
		vrt.Reach("ok")
	case legal:
		vrt.Assert(w.Env.CurrentState() == "ERROR", "failed-request-leaves-the-environment-in-error")
		vrt.Assert(reply == nil || reply.State != c02Dst[ev] || c02Dst[ev] == "ERROR", "destination-is-never-reported-after-a-task-failure")
		vrt.Assert(err != nil, "failed-request-returns-an-error")
		vrt.Reach("task-failure")
	default:
		vrt.Assert(w.Env.CurrentState() == "ERROR", "illegal-request-leaves-the-environment-in-error")
		vrt.Assert(err != nil, "illegal-request-returns-an-error")
		vrt.Reach("illegal")
	}
}
