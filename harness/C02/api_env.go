//go:build verif

package environment

//verif:pkg core/environment

import (
	"github.com/AliceO2Group/Control/common/event"
	"github.com/AliceO2Group/Control/core/task"
	"github.com/AliceO2Group/Control/core/workflow"
)

// VerifAPIWorld is the exported face of the F-env set-up for the API-level harness in package core: an environment
// manager holding one environment in the given state whose workflow has one critical task, and a task manager
// that answers the n-th task-transition message with the verdict of `fails`. Messages() tells how many task
// commands the environment sent.
type VerifAPIWorld struct {
	Envs    *Manager
	Env     *Environment
	Taskman *task.Manager
	rec     *fenvRec
}

func VerifNewAPIWorld(state string, fails func(n int) bool) *VerifAPIWorld {
	rec := &fenvRec{}
	env := fenvNew(&fenvConf{}, rec, state, nil)
	env.workflow = workflow.NewAggregatorRole("root", []workflow.Role{workflow.VerifTaskRole("t0", true, &task.Task{})})
	workflow.LinkChildrenToParents(env.workflow)
	workflow.VerifAttach(env.workflow, env.wfAdapter)
	tm := fenvTaskman(rec, env, fails)
	envs := NewEnvManager(tm, make(chan event.Event, 16))
	envs.m[env.id] = env
	envs.pendingStateChangeCh[env.id] = env.stateChangedCh
	return &VerifAPIWorld{Envs: envs, Env: env, Taskman: tm, rec: rec}
}

func (w *VerifAPIWorld) Messages() int { return w.rec.count("taskman:message") }
