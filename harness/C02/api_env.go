//go:build verif

package environment

//verif:pkg core/environment

import (
	"github.com/AliceO2Group/Control/common/event"
	"github.com/AliceO2Group/Control/core/task"
	"github.com/AliceO2Group/Control/core/workflow"
)

// VerifAPIWorld is the exported face of the F-env set-up for the API-level harness in package core: an environment
// manager holding one environment in the given state whose workflow has one critical task, and a task manager
// that answers the n-th task-transition message with the verdict of `fails`. Messages() tells how many task
// commands the environment sent.
type VerifAPIWorld struct {
	Envs    *Manager
	Env     *Environment
	Taskman *task.Manager
	rec     *fenvRec
}

func VerifNewAPIWorld(state string, fails func(n int) bool, goErrorHookFails bool) *VerifAPIWorld {
	rec := &fenvRec{}
	var hooks []fenvHook
	roles := []workflow.Role{workflow.VerifTaskRole("t0", true, &task.Task{})}
	if goErrorHookFails { // a critical hook that cancels the GO_ERROR transition itself
		hooks = append(hooks, fenvHook{name: "h", trigger: "before_GO_ERROR", critical: true})
		rec.onCall = failingCall
		roles = append(roles, workflow.NewCallRole("h", task.Traits{Trigger: "before_GO_ERROR", Await: "before_GO_ERROR", Timeout: "5s", Critical: true}, "verif.Hook()", ""))
	}
	env := fenvNew(&fenvConf{}, rec, state, hooks)
	env.workflow = workflow.NewAggregatorRole("root", roles)
	workflow.LinkChildrenToParents(env.workflow)
	workflow.VerifAttach(env.workflow, env.wfAdapter)
	tm := fenvTaskman(rec, env, fails)
	envs := NewEnvManager(tm, make(chan event.Event, 16))
	envs.m[env.id] = env
	envs.pendingStateChangeCh[env.id] = env.stateChangedCh
	return &VerifAPIWorld{Envs: envs, Env: env, Taskman: tm, rec: rec}
}

func (w *VerifAPIWorld) Messages() int { return w.rec.count("taskman:message") }
