//go:build verif

package environment

//verif:pkg core/environment

import (
	"errors"
	"time"

	"github.com/AliceO2Group/Control/common/event"
	"github.com/AliceO2Group/Control/core/task"
	"github.com/AliceO2Group/Control/core/workflow"
	vrt "github.com/AliceO2Group/Control/zz_vrt"
	mesos "github.com/mesos/mesos-go/api/v1/lib"
)

// Hook tasks (tasks run as hooks) at one trigger point: two of them, each ending in one of five ways - exits 0,
// exits non-zero, is killed (involuntary termination), dies from a signal (exit code -1), never reports (its
// timeout fires) - or the trigger command
// itself cannot be sent. The termination reports arrive one at a time, each when the previous one has been dealt
// with (time passes in between), a timeout fires when nothing else can happen, and a hook that timed out may still
// report afterwards. Whatever the combination: the core survives (no panic), exactly the hooks that did not exit 0
// voluntarily are reported as failed, and nothing is left behind that would swallow the reports of a later hook.
//verif:entry HarnessHookTasks unwind=64 preempt=1 timers=lazy reach=all-fine,some-failed,trigger-failed,late-report stub=github.com/AliceO2Group/Control/common/utils.TimeTrack nosched=github.com/AliceO2Group/Control/core/the.mu
func HarnessHookTasks() {
	world := task.VerifNewWorld([]string{"h1", "h2", "h3"}, make(chan event.Event, 16), nil)
	rec := &fenvRec{}
	env := fenvNew(&fenvConf{}, rec, "DEPLOYED", nil)
	var roles []workflow.Role
	longer := vrt.Bool("second.hook.has.a.longer.timeout")
	for i, t := range world.Tasks {
		r := workflow.VerifHookTaskRole([]string{"h1", "h2", "h3"}[i], "before_CONFIGURE", true, t)
		workflow.VerifSetTimeout(r, "300ms")
		if i == 1 && longer {
			workflow.VerifSetTimeout(r, "600ms") // so that a late report of the first can arrive while the second is still awaited
		}
		roles = append(roles, r)
	}
	env.workflow = workflow.NewAggregatorRole("root", roles)
	workflow.LinkChildrenToParents(env.workflow)
	workflow.VerifAttach(env.workflow, env.wfAdapter)

	const (
		exitsZero = iota
		exitsNonZero
		killed
		signalled // the process died from a signal: the executor reports exit code -1 as a voluntary termination
		silent
	)
	hooks := task.Tasks{world.Tasks[0], world.Tasks[1]}
	outcome := []int{vrt.IntRange("outcome", exitsZero, silent), vrt.IntRange("outcome", exitsZero, silent)}
	lateReport := vrt.Bool("silent.hook.reports.after.its.timeout")
	secondIsSlow := vrt.Bool("second.hook.takes.its.time")
	arrival := []int{-1, -1} // when each hook's own report arrives (-1: never)
	triggerFails := vrt.Bool("trigger.cannot.be.sent")
	report := func(t *task.Task, how int) {
		e := &event.BasicTaskTerminated{FinalMesosState: mesos.TASK_FINISHED}
		e.Origin.TaskId = mesos.TaskID{Value: t.GetTaskId()}
		switch how {
		case exitsZero:
			e.VoluntaryTermination = true
		case exitsNonZero:
			e.ExitCode, e.VoluntaryTermination = 1, true
		case killed:
			e.VoluntaryTermination = false
		case signalled:
			e.ExitCode, e.VoluntaryTermination = -1, true
		}
		env.NotifyEvent(e)
	}
	env.hookHandlerF = func(hs task.Tasks) error {
		if triggerFails {
			return errors.New("cannot send the trigger command")
		}
		go func() {
			clock := 0 // milliseconds since the trigger, as far as this reporter is concerned
			wait := func(ms int) {
				<-time.After(time.Duration(ms) * time.Millisecond)
				clock += ms
			}
			for i, h := range hs {
				if outcome[i] != silent && !(i == 1 && secondIsSlow) {
					wait(10) // the listener is waiting
					arrival[i] = clock
					report(h, outcome[i])
				}
			}
			if lateReport {
				for i, h := range hs {
					if outcome[i] == silent {
						// ... after its own timeout has fired (300 ms, or 600 ms for the second hook)
						if i == 1 && longer {
							wait(750 - clock)
						} else {
							wait(450 - clock)
						}
						arrival[i] = clock
						report(h, exitsZero)
					}
				}
			}
			if secondIsSlow && outcome[1] != silent {
				wait(60) // the second hook takes its time: its report comes after everything else
				arrival[1] = clock
				report(hs[1], outcome[1])
			}
		}()
		return nil
	}
	errs := env.runTasksAsHooks(hooks)
	for _, h := range hooks {
		vrt.Trace("hook", h.GetName(), "error:", errs[h])
	}
	anyFailed := false
	for i, h := range hooks {
		_, failed := errs[h]
		if triggerFails {
			vrt.Assert(failed, "hooks-whose-trigger-could-not-be-sent-are-reported-failed")
			anyFailed = true
			continue
		}
		timeout := 300
		if i == 1 && longer {
			timeout = 600
		}
		inTime := arrival[i] >= 0 && arrival[i] < timeout && outcome[i] != silent
		vrt.Assert(failed == !(outcome[i] == exitsZero && inTime), "exactly-the-hooks-that-did-not-exit-zero-in-time-are-reported-failed")
		anyFailed = anyFailed || failed
	}
	vrt.Assert(len(errs) <= 2, "only-the-triggered-hooks-are-reported")
	if lateReport && (outcome[0] == silent || outcome[1] == silent) && !triggerFails {
		<-time.After(time.Second)
		vrt.Reach("late-report")
	}

	// a later hook at another point: its report must reach the code that waits for it
	later := task.Tasks{world.Tasks[2]}
	env.hookHandlerF = func(hs task.Tasks) error {
		go func() {
			<-time.After(10 * time.Millisecond)
			report(hs[0], exitsZero)
		}()
		return nil
	}
	errs2 := env.runTasksAsHooks(later)
	vrt.Assert(len(errs2) == 0, "report-of-a-later-hook-is-not-swallowed-by-leftovers-of-an-earlier-one")
	switch {
	case triggerFails:
		vrt.Reach("trigger-failed")
	case anyFailed:
		vrt.Reach("some-failed")
	default:
		vrt.Reach("all-fine")
	}
}

// Two hook tasks that both exit 0, their termination reports arriving in quick succession (the second while the
// first is still being dealt with): both count as successful. Threads are not assumed to be parked at their next
// operation (lazy arrival), which is what exposes a report delivered while nobody is receiving.
//verif:entry HarnessHookReportsBackToBack unwind=64 preempt=2 timers=lazy lazyarrive=1 reach=both-fine stub=github.com/AliceO2Group/Control/common/utils.TimeTrack nosched=github.com/AliceO2Group/Control/core/the.mu
func HarnessHookReportsBackToBack() {
	world := task.VerifNewWorld([]string{"h1", "h2"}, make(chan event.Event, 16), nil)
	env := fenvNew(&fenvConf{}, &fenvRec{}, "DEPLOYED", nil)
	var roles []workflow.Role
	for i, t := range world.Tasks {
		r := workflow.VerifHookTaskRole([]string{"h1", "h2"}[i], "before_CONFIGURE", true, t)
		workflow.VerifSetTimeout(r, "300ms")
		roles = append(roles, r)
	}
	env.workflow = workflow.NewAggregatorRole("root", roles)
	workflow.LinkChildrenToParents(env.workflow)
	workflow.VerifAttach(env.workflow, env.wfAdapter)
	env.hookHandlerF = func(hs task.Tasks) error {
		go func() {
			<-time.After(10 * time.Millisecond) // both hooks ran for a while; the listener is waiting by now
			for _, h := range hs {
				e := &event.BasicTaskTerminated{FinalMesosState: mesos.TASK_FINISHED, VoluntaryTermination: true}
				e.Origin.TaskId = mesos.TaskID{Value: h.GetTaskId()}
				env.NotifyEvent(e)
			}
		}()
		return nil
	}
	errs := env.runTasksAsHooks(task.Tasks{world.Tasks[0], world.Tasks[1]})
	for _, h := range world.Tasks {
		vrt.Trace("hook", h.GetName(), "error:", errs[h])
	}
	vrt.Assert(len(errs) == 0, "hooks-that-exited-zero-are-not-reported-failed")
	vrt.Reach("both-fine")
}
