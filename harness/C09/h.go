//go:build verif

package environment

//verif:pkg core/environment

import (
	"errors"
	"strings"

	"github.com/AliceO2Group/Control/core/workflow/callable"
	vrt "github.com/AliceO2Group/Control/zz_vrt"
)

// The transition under test is CONFIGURE (DEPLOYED -> CONFIGURED); its hook moments, in documented order:
var c09Moments = []string{"before_CONFIGURE", "leave_DEPLOYED", "enter_CONFIGURED", "after_CONFIGURE"}
var c09Weights = []string{"-5", "+0", "+7"}

// position of (moment, weight) in the documented firing order; the task transition sits between
// leave_DEPLOYED and enter_CONFIGURED (position 5.5)
func c09Pos(moment, weight int) int { return moment*3 + weight }

type c09Hook struct {
	name     string
	moment   int
	weight   int
	critical bool
	fails    bool
}

// Every subset of failing hooks, critical or not, at every moment and weight:
//   - a failing critical hook at before_<event> or leave_<state> cancels the transition: source state kept,
//     nothing later runs (no later hook, no task transition), the caller gets an error;
//   - at enter_<state> or after_<event> the error is reported, the destination state stays and the remaining
//     moments still run;
//   - non-critical failures are never reported;
//   - simultaneous failures are reported together without harming the core (no panic, no concurrent map write).
//verif:entry HarnessHookFailures unwind=64 race=1 preempt=1 reach=cancelled,reported,ignored,clean stub=github.com/AliceO2Group/Control/common/utils.TimeTrack nosched=github.com/AliceO2Group/Control/core/the.mu
//verif:thorough HarnessHookFailures preempt=2
func HarnessHookFailures() {
	n := 2 // (three hooks is 110 000 input combinations times the schedules: out of reach; the mixed-failure entry covers the three-hook case that matters)
	var hooks []c09Hook
	var specs []fenvHook
	for i := 0; i < n; i++ {
		h := c09Hook{name: "h" + string(rune('0'+i)), moment: vrt.IntRange("moment", 0, 3), weight: vrt.IntRange("weight", 0, 2), critical: vrt.Bool("critical"), fails: vrt.Bool("fails")}
		hooks = append(hooks, h)
		specs = append(specs, fenvHook{name: h.name, trigger: c09Moments[h.moment] + c09Weights[h.weight], critical: h.critical})
	}
	rec := &fenvRec{}
	rec.onCall = func(c *callable.Call) error {
		for _, h := range hooks {
			if c.GetName() == "root."+h.name && h.fails {
				return errors.New("hook " + h.name + " failed")
			}
		}
		return nil
	}
	env := fenvNew(&fenvConf{}, rec, "DEPLOYED", specs)
	err := env.TryTransition(fenvTransition{name: "CONFIGURE", rec: rec})
	post := env.CurrentState()

	// the first position at which a critical hook fails (hooks at that same position all run)
	firstCrit := 1000
	anyCritFail := false
	for _, h := range hooks {
		if h.critical && h.fails {
			anyCritFail = true
			if p := c09Pos(h.moment, h.weight); p < firstCrit {
				firstCrit = p
			}
		}
	}
	cancelling := firstCrit < c09Pos(2, 0) // a critical failure before the task transition
	doRan := rec.count("do:CONFIGURE:begin") == 1
	// handleHooks is invoked once per moment and sign class (negative weights before, non-negative after
	// the built-in work of the moment); inside one invocation it stops at the first weight with a critical
	// failure. firstIn[moment][class] is that weight, 9 if none.
	var firstIn [4][2]int
	for m := range firstIn {
		firstIn[m] = [2]int{9, 9}
	}
	class := func(w int) int {
		if w == 0 {
			return 0
		}
		return 1
	}
	for _, h := range hooks {
		if h.critical && h.fails && h.weight < firstIn[h.moment][class(h.weight)] {
			firstIn[h.moment][class(h.weight)] = h.weight
		}
	}
	for _, h := range hooks {
		ran := rec.count("call:root."+h.name+":start") == 1
		p := c09Pos(h.moment, h.weight)
		switch {
		case cancelling && p > firstCrit:
			vrt.Assert(!ran, "nothing-runs-after-a-cancelling-critical-failure")
		case h.weight > firstIn[h.moment][class(h.weight)]:
			vrt.Assert(!ran, "later-weights-of-a-moment-are-skipped-after-a-critical-failure")
		default:
			vrt.Assert(ran, "hook-runs-at-its-moment")
		}
	}
	switch {
	case cancelling:
		vrt.Assert(err != nil, "cancelling-failure-is-reported")
		vrt.Assert(post == "DEPLOYED", "cancelled-transition-keeps-the-source-state")
		vrt.Assert(!doRan, "cancelled-transition-sends-no-task-command")
		vrt.Reach("cancelled")
	case anyCritFail:
		vrt.Assert(err != nil, "late-critical-failure-is-reported")
		vrt.Assert(post == "CONFIGURED" && doRan, "late-critical-failure-keeps-the-destination-state")
		vrt.Reach("reported")
	default:
		vrt.Assert(err == nil && post == "CONFIGURED" && doRan, "non-critical-failures-never-fail-a-transition")
		anyFail := false
		for _, h := range hooks {
			anyFail = anyFail || h.fails
		}
		if anyFail {
			vrt.Reach("ignored")
		} else {
			vrt.Reach("clean")
		}
	}
	if err != nil {
		// the error names a critical failure; hooks failing at the same point (moment and weight) as a named
		// one are reported together with it
		named := 0
		for _, h := range hooks {
			if h.critical && h.fails && strings.Contains(err.Error(), "hook "+h.name+" failed") {
				named++
				for _, o := range hooks {
					if o.critical && o.fails && o.moment == h.moment && o.weight == h.weight {
						vrt.Assert(strings.Contains(err.Error(), "hook "+o.name+" failed"), "failures-at-the-same-point-are-reported-together")
					}
				}
			}
		}
		vrt.Assert(named >= 1 || strings.Contains(err.Error(), "critical hooks failed"), "error-names-the-failure")
	}
}

// A critical and a non-critical hook failing at the same point (moment and weight), in either order of
// collection (the errors are gathered in a map: its iteration order is explored), and a third hook at a later
// weight of the same moment: the critical failure still counts - the later weight does not run, the failure is
// reported, and a cancelling moment keeps the source state.
//verif:entry HarnessMixedFailuresAtOnePoint unwind=64 preempt=0 maporder=2 maporderin=handleHooks reach=cancelled,reported stub=github.com/AliceO2Group/Control/common/utils.TimeTrack nosched=github.com/AliceO2Group/Control/core/the.mu
func HarnessMixedFailuresAtOnePoint() {
	moment := vrt.IntRange("moment", 0, 3)
	critFirst := vrt.Bool("critical.declared.first")
	point := c09Moments[moment] + "+0"
	specs := []fenvHook{{name: "h0", trigger: point, critical: critFirst}, {name: "h1", trigger: point, critical: !critFirst}, {name: "late", trigger: c09Moments[moment] + "+7", critical: true}}
	rec := &fenvRec{}
	rec.onCall = func(c *callable.Call) error {
		if c.GetName() == "root.late" {
			return nil
		}
		return failingCall(c)
	}
	env := fenvNew(&fenvConf{}, rec, "DEPLOYED", specs)
	err := env.TryTransition(fenvTransition{name: "CONFIGURE", rec: rec})
	vrt.Assert(err != nil, "critical-failure-next-to-a-non-critical-one-is-reported")
	vrt.Assert(rec.count("call:root.late:start") == 0, "later-weights-of-a-moment-are-skipped-after-a-critical-failure")
	if moment < 2 {
		vrt.Assert(env.CurrentState() == "DEPLOYED" && rec.count("do:CONFIGURE:begin") == 0, "cancelled-transition-keeps-the-source-state")
		vrt.Reach("cancelled")
	} else {
		vrt.Assert(env.CurrentState() == "CONFIGURED", "late-critical-failure-keeps-the-destination-state")
		vrt.Reach("reported")
	}
}
