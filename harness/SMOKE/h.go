//go:build verif

package sm

//verif:pkg core/task/sm

import vrt "github.com/AliceO2Group/Control/zz_vrt"

//verif:entry HarnessSmokeX unwind=4 reach=end
func HarnessSmokeX() {
	a := State(vrt.IntRange("a", 0, 7))
	b := State(vrt.IntRange("b", 0, 7))
	c := State(vrt.IntRange("c", 0, 7))
	vrt.Assert(a.X(b) == b.X(a), "commutative")
	vrt.Assert(a.X(b).X(c) == a.X(b.X(c)), "associative")
	if a == ERROR {
		vrt.Assert(a.X(b) == ERROR, "error-absorbing")
	}
	vrt.Assert(a.X(INVARIANT) == a, "invariant-neutral")
	vrt.Reach("end")
}

//verif:entry HarnessSmokeFail unwind=4
func HarnessSmokeFail() {
	a := State(vrt.IntRange("a", 0, 7))
	b := State(vrt.IntRange("b", 0, 7))
	vrt.Assert(a.X(b) != MIXED || a == MIXED || b == MIXED, "never-mixed-from-pure")
}
