//go:build verif

package environment

//verif:pkg core/environment

import (
	"strings"
	"testing"
)

// Compares the stand-in used under the interpreter with the real JSONSliceToSlice (encoding/json) on every
// payload the detector harness can build: lists of 0..3 names out of c04Names.
//verif:native TestVerifNativeJSONSliceModel
func TestVerifNativeJSONSliceModel(t *testing.T) {
	var lists [][]string
	lists = append(lists, nil)
	for _, a := range c04Names {
		lists = append(lists, []string{a})
		for _, b := range c04Names {
			lists = append(lists, []string{a, b})
			for _, c := range c04Names {
				lists = append(lists, []string{a, b, c})
			}
		}
	}
	for _, l := range lists {
		var q []string
		for _, n := range l {
			q = append(q, "\""+n+"\"")
		}
		payload := "[" + strings.Join(q, ",") + "]"
		real, rerr := JSONSliceToSlice(payload)
		model, merr := c04Slice(payload)
		if (rerr == nil) != (merr == nil) || strings.Join(real, "|") != strings.Join(model, "|") || len(real) != len(model) {
			t.Fatalf("payload %s: real %v %v, model %v %v", payload, real, rerr, model, merr)
		}
	}
}
