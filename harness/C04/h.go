//go:build verif

package task

//verif:pkg core/task

import (
	"github.com/AliceO2Group/Control/common/event"
	"github.com/AliceO2Group/Control/common/utils/uid"
	vrt "github.com/AliceO2Group/Control/zz_vrt"
	mesos "github.com/mesos/mesos-go/api/v1/lib"
)

const (
	c04None = iota
	c04A
	c04B
)

type c04Task struct {
	t      *Task
	role   *ftRole
	owner  int
	active bool
}

// Inductive step over the roster: from an arbitrary roster of 3 tasks (each unowned, owned by environment A or
// owned by environment B, active or not) one operation issued on behalf of A or of nobody - release of A's tasks,
// kill of a list of tasks, cleanup of unowned tasks - with arbitrary kill outcomes:
//   - a task owned by B keeps its owner, stays in the roster, keeps its status and is never sent a KILL;
//   - kill and cleanup never touch an owned task at all (A's neither);
//   - release only unlocks the tasks of the requesting environment and reports the others as errors.
//verif:entry HarnessOwnershipStep unwind=24 preempt=1 reach=release,kill,cleanup stub=github.com/AliceO2Group/Control/common/utils.TimeTrack
func HarnessOwnershipStep() {
	envA, envB := uid.ID("2envAAAAAAA"), uid.ID("2envBBBBBBB")
	owners := []uid.ID{"", envA, envB}
	names := []string{"x", "y", "z"}
	var ts []c04Task
	var all Tasks
	for i := 0; i < 3; i++ {
		o := vrt.IntRange("owner", c04None, c04B)
		t, role := ftTask(names[i], owners[o], true)
		act := vrt.Bool("active")
		if !act {
			t.status = INACTIVE
		}
		ts = append(ts, c04Task{t, role, o, act})
		all = append(all, t)
	}
	w := ftManager(all, nil)
	w.caller.fail = func(id string) bool { return vrt.Bool("kill.fails") }
	w.caller.onKill = func(id string) {
		// Mesos confirms the kill with a terminal status update
		st := mesos.TASK_KILLED
		go w.m.updateTaskStatus(&mesos.TaskStatus{TaskID: mesos.TaskID{Value: id}, State: &st})
	}
	// which tasks the request names
	var picked Tasks
	var pickedIds []string
	for i := range ts {
		if vrt.Bool("picked") {
			picked = append(picked, ts[i].t)
			pickedIds = append(pickedIds, ts[i].t.taskId)
		}
	}
	op := vrt.IntRange("op", 0, 2)
	var released *event.TasksReleasedEvent
	switch op {
	case 0:
		vrt.Assert(w.m.releaseTasks(envA, picked) == nil, "release-returns")
		released = (<-w.events).(*event.TasksReleasedEvent)
		vrt.Reach("release")
	case 1:
		w.m.KillTasks(pickedIds)
		vrt.Reach("kill")
	case 2:
		w.m.Cleanup()
		vrt.Reach("cleanup")
	}
	inRoster := func(t *Task) bool { return w.m.GetTask(t.taskId) == t }
	for i, c := range ts {
		isPicked := false
		for _, id := range pickedIds {
			isPicked = isPicked || id == c.t.taskId
		}
		switch c.owner {
		case c04B:
			vrt.Assert(c.t.parent == c.role && c.t.IsLocked(), "task-of-another-environment-keeps-its-owner")
			vrt.Assert(inRoster(c.t), "task-of-another-environment-stays-in-the-roster")
			vrt.Assert((c.t.status == ACTIVE) == c.active, "task-of-another-environment-keeps-its-status")
			vrt.Assert(w.caller.killed(c.t.taskId) == 0, "task-of-another-environment-is-never-killed")
			if op == 0 && isPicked {
				_, reported := released.GetTaskReleaseErrors()[c.t.taskId]
				vrt.Assert(reported, "release-of-a-foreign-task-is-reported-as-an-error")
			}
		case c04A:
			if op == 0 && isPicked {
				vrt.Assert(c.t.parent == nil && !c.t.IsLocked(), "released-task-is-unowned")
			} else {
				vrt.Assert(c.t.parent == c.role && inRoster(c.t) && w.caller.killed(c.t.taskId) == 0, "kill-and-cleanup-never-touch-owned-tasks")
			}
		case c04None:
			if op == 0 {
				vrt.Assert(inRoster(c.t) && w.caller.killed(c.t.taskId) == 0, "release-kills-nothing")
			}
			if op == 2 || (op == 1 && isPicked) {
				// an unowned task named by kill / swept by cleanup: asked to terminate if it was active
				if c.active {
					vrt.Assert(w.caller.killed(c.t.taskId) == 1, "unowned-active-task-is-asked-to-terminate-exactly-once")
				} else {
					vrt.Assert(w.caller.killed(c.t.taskId) == 0 && !inRoster(c.t), "unowned-inactive-task-is-just-forgotten")
				}
			}
			if op == 1 && !isPicked {
				vrt.Assert(inRoster(c.t) && w.caller.killed(c.t.taskId) == 0, "kill-only-affects-the-named-tasks")
			}
		}
		_ = i
	}
}

// A status update never changes who owns a task: a TASK_RUNNING update for a task owned by an environment, coming
// from the executor (agent and executor id) or from the master as a reconciliation answer (agent id only, or none),
// leaves it locked by its role, and the cleanup of unowned tasks that follows (every environment creation starts
// with one) neither kills it nor drops it from the roster.
//verif:entry HarnessStatusUpdateKeepsOwnership unwind=24 preempt=1 reach=kept stub=github.com/AliceO2Group/Control/common/utils.TimeTrack
func HarnessStatusUpdateKeepsOwnership() {
	env := uid.ID("2envAAAAAAA")
	t, role := ftTask("x", env, true)
	w := ftManager(Tasks{t}, nil)
	run := mesos.TASK_RUNNING
	st := mesos.TaskStatus{TaskID: mesos.TaskID{Value: t.taskId}, State: &run}
	if vrt.Bool("update.has.agent.id") {
		st.AgentID = &mesos.AgentID{Value: t.agentId}
	}
	if vrt.Bool("update.has.executor.id") {
		st.ExecutorID = &mesos.ExecutorID{Value: t.executorId}
	}
	if vrt.Bool("reason.reconciliation") {
		r := mesos.REASON_RECONCILIATION
		st.Reason = &r
	}
	vrt.Assert(w.m.handleMessage(NewTaskStatusMessage(st)) == nil, "status-update-is-handled")
	vrt.Assert(t.parent == parentRole(role) && t.IsLocked(), "a-status-update-never-changes-the-owner-of-a-task")
	w.m.Cleanup()
	vrt.Assert(w.caller.killed(t.taskId) == 0 && w.m.GetTask(t.taskId) == t && t.IsLocked(), "kill-and-cleanup-never-touch-owned-tasks")
	vrt.Reach("kept")
}
