//go:build verif

package environment

//verif:pkg core/environment

import (
	"errors"
	"strings"

	"github.com/AliceO2Group/Control/common/system"
	"github.com/AliceO2Group/Control/common/utils/uid"
	vrt "github.com/AliceO2Group/Control/zz_vrt"
)

// c04Names: three detectors of the enum, one name that is not in it (the default list is the Consul inventory,
// which also has folders that are no detectors) and a lower-case spelling the enum accepts too.
var c04Names = []string{"ITS", "TPC", "MFT", "CTP", "its"}

func c04Known(n string) (system.ID, bool) {
	switch n {
	case "ITS", "its":
		return system.ITS, true
	case "TPC":
		return system.TPC, true
	case "MFT":
		return system.MFT, true
	}
	return 0, false
}

// c04Slice stands for JSONSliceToSlice (encoding/json is reflective) on the payloads this harness builds.
func c04Slice(payload string) ([]string, error) {
	out := make([]string, 0)
	if len(payload) < 2 || payload[0] != '[' {
		return out, errors.New("not a JSON list")
	}
	inner := payload[1 : len(payload)-1]
	if inner == "" {
		return out, nil
	}
	for _, p := range strings.Split(inner, ",") {
		out = append(out, strings.Trim(p, "\""))
	}
	return out, nil
}

func c04Env(id string, label string) (*Environment, []string) {
	// any state: an environment is registered (and holds its detectors) from the moment its workflow is loaded, in
	// STANDBY, through deployment and until it is torn down
	state := "CONFIGURED"
	if label == "a" {
		state = []string{"STANDBY", "DEPLOYED", "CONFIGURED", "RUNNING", "ERROR"}[vrt.IntRange(label+".state", 0, 4)]
	}
	env := fenvNew(&fenvConf{}, &fenvRec{}, state, nil)
	env.id = uid.ID(id)
	n := vrt.IntRange(label+".detectors", 0, 2+vrt.Tier())
	var list, quoted []string
	for i := 0; i < n; i++ {
		name := c04Names[vrt.IntRange(label+".detector", 0, len(c04Names)-1)]
		list = append(list, name)
		quoted = append(quoted, "\""+name+"\"")
	}
	env.GlobalDefaults.Set("detectors", "["+strings.Join(quoted, ",")+"]")
	return env, list
}

// The set of detectors in use, which CreateEnvironment compares a new environment's needs with, is exactly the
// set of enum detectors named in the `detectors` lists of the live environments, wherever in a list they stand
// and whatever else the list names; and an environment's own needs are computed the same way.
//verif:entry HarnessDetectorsInUse unwind=64 conform=12 reach=inuse,free,unknown-name replace=github.com/AliceO2Group/Control/core/environment.JSONSliceToSlice=>c04Slice
func HarnessDetectorsInUse() {
	a, la := c04Env("2oDvieFrVTa", "a")
	b, lb := c04Env("2oDvieFrVTb", "b")
	envs := &Manager{m: map[uid.ID]*Environment{a.id: a, b.id: b}}
	want := system.IDMap{}
	for _, n := range append(append([]string{}, la...), lb...) {
		if id, ok := c04Known(n); ok {
			want[id] = struct{}{}
		} else {
			vrt.Reach("unknown-name")
		}
	}
	got := envs.GetActiveDetectors()
	for id := range want {
		_, in := got[id]
		vrt.Assert(in, "every-detector-named-by-a-live-environment-counts-as-in-use")
	}
	for id := range got {
		_, in := want[id]
		vrt.Assert(in, "only-detectors-named-by-a-live-environment-count-as-in-use")
	}
	own := a.GetActiveDetectors()
	for _, n := range la {
		if id, ok := c04Known(n); ok {
			_, in := own[id]
			vrt.Assert(in, "an-environment-needs-every-detector-it-names")
		}
	}
	if len(got) > 0 {
		vrt.Reach("inuse")
	} else {
		vrt.Reach("free")
	}
}
