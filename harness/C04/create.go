//go:build verif

package environment

//verif:pkg core/environment
//verif:hook core/environment Manager.loadWorkflow
//verif:hook core/environment parseWorkflowPublicInfo

import (
	"errors"
	"strings"

	"github.com/AliceO2Group/Control/common/event"
	"github.com/AliceO2Group/Control/common/utils/uid"
	"github.com/AliceO2Group/Control/configuration"
	"github.com/AliceO2Group/Control/core/controlcommands"
	"github.com/AliceO2Group/Control/core/task"
	"github.com/AliceO2Group/Control/core/the"
	"github.com/AliceO2Group/Control/core/workflow"
	"github.com/AliceO2Group/Control/core/workflow/callable"
	vrt "github.com/AliceO2Group/Control/zz_vrt"
)

// c04CreateConf: the configuration service of the creation harness. Every workflow runs on host flp1, whose
// detector is ITS.
type c04CreateConf struct{ configuration.Service }

func (c04CreateConf) GetDefaults() map[string]string { return map[string]string{} }
func (c04CreateConf) GetVars() map[string]string     { return map[string]string{} }
func (c04CreateConf) GetDetectorsForHosts(hosts []string) ([]string, error) {
	return []string{"ITS"}, nil
}

// c04ToJSON stands for SliceToJSONSlice (encoding/json is reflective) on lists of plain names.
func c04ToJSON(slice []string) (string, error) {
	var q []string
	for _, s := range slice {
		q = append(q, "\""+s+"\"")
	}
	return "[" + strings.Join(q, ",") + "]", nil
}

// Two environments that need the same detector are requested at the same time (CreateEnvironment, real code up to
// and including DEPLOY and CONFIGURE of a workflow made of one integration call; loading the workflow from the
// repository is the harness). Whatever the interleaving, at most one of them gets the detector: the other request
// fails and leaves nothing listed.
//verif:entry HarnessConcurrentCreations unwind=96 preempt=1 timers=lazy reach=one,sequential stub=github.com/AliceO2Group/Control/common/utils.TimeTrack,encoding/json.Unmarshal nosched=github.com/AliceO2Group/Control/core/the.mu replace=github.com/AliceO2Group/Control/core/environment.JSONSliceToSlice=>c04Slice,github.com/AliceO2Group/Control/core/environment.SliceToJSONSlice=>c04ToJSON steps=12000000
func HarnessConcurrentCreations() {
	the.VerifHook_ConfSvc = func() configuration.Service { return c04CreateConf{} }
	callable.VerifHook_Call_Call = func(c *callable.Call) error { return nil }
	VerifHook_parseWorkflowPublicInfo = func(string) (WorkflowPublicInfo, error) {
		return WorkflowPublicInfo{Name: "wf"}, nil
	}
	VerifHook_Manager_loadWorkflow = func(envs *Manager, path string, parent workflow.Updatable, userVars map[string]string, base map[string]string) (workflow.Role, error) {
		root := workflow.NewAggregatorRole("root", []workflow.Role{
			workflow.NewCallRole("c", task.Traits{Trigger: "before_NEVER", Await: "before_NEVER", Timeout: "1s"}, "verif.Hook()", ""),
		})
		workflow.LinkChildrenToParents(root)
		pa, ok := parent.(*workflow.ParentAdapter)
		if !ok {
			return nil, errors.New("unexpected parent")
		}
		workflow.VerifAttach(root, pa)
		return root, nil
	}
	events := make(chan event.Event, 16)
	var world *task.VerifWorld
	world = task.VerifNewWorld(nil, events, func(cmd controlcommands.MesosCommand, rcv controlcommands.MesosCommandTarget) error {
		world.Reply(cmd, rcv, nil)
		return nil
	})
	envs := NewEnvManager(world.M, events)
	ids := []uid.ID{"2envAAAAAAA", "2envBBBBBBB"}
	res := make(chan error, 2)
	sequential := vrt.Bool("one.after.the.other")
	create := func(i int) {
		_, err := envs.CreateEnvironment("wf", map[string]string{}, false, ids[i], false)
		res <- err
	}
	var e1, e2 error
	if sequential {
		create(0)
		e1 = <-res
		create(1)
		e2 = <-res
		vrt.Assert(e1 == nil && e2 != nil, "creating-an-environment-that-needs-a-detector-in-use-fails")
		vrt.Reach("sequential")
	} else {
		go create(0)
		go create(1)
		e1, e2 = <-res, <-res
		vrt.Assert(e1 != nil || e2 != nil, "a-detector-is-part-of-at-most-one-active-environment")
		vrt.Reach("one")
	}
	holders := 0
	envs.mu.RLock()
	for _, env := range envs.m {
		if len(env.GetActiveDetectors()) > 0 {
			holders++
		}
	}
	envs.mu.RUnlock()
	vrt.Assert(holders <= 1, "a-detector-is-part-of-at-most-one-active-environment")
}
