//go:build verif

package task

//verif:pkg core/task

import (
	"github.com/AliceO2Group/Control/common/gera"
	"github.com/AliceO2Group/Control/common/utils/uid"
	"github.com/AliceO2Group/Control/core/task/taskclass"
	vrt "github.com/AliceO2Group/Control/zz_vrt"
	mesos "github.com/mesos/mesos-go/api/v1/lib"
	"github.com/spf13/viper"
)

// Manager.acquireTasks for one or two task descriptors of environment A (the second critical or not), with or without the
// reuse of unlocked tasks, against a scheduler side that answers every deployment attempt with the same verdict per
// descriptor - launched, not launched this round, impossible to place. The roster already holds an idle, unlocked task
// of the first class (reusable) and a task owned by environment B.
//   - success iff no critical descriptor stayed without a task; then every task launched or reused for A is owned by
//     the role it was meant for, known to that role and in the roster;
//   - on failure nothing is owned by A: the tasks that were launched are in the roster, unowned (the next cleanup
//     finds them), the reusable task is still unowned;
//   - B's task is never touched; the core survives (no panic, no fatal lock misuse).
//verif:entry HarnessAcquireTasks unwind=24 preempt=0 timers=lazy reach=acquired,failed,reused stub=github.com/AliceO2Group/Control/common/utils.TimeTrack
func HarnessAcquireTasks() {
	envA, envB := uid.ID("2envAAAAAAA"), uid.ID("2envBBBBBBB")
	const (
		launched = iota
		notThisRound
		impossible
	)
	reuse := vrt.Bool("reuse.unlocked.tasks")
	viper.Set("reuseUnlockedTasks", reuse)
	verdict := []int{vrt.IntRange("verdict", launched, impossible), vrt.IntRange("verdict", launched, impossible)}
	secondCritical := vrt.Bool("second.critical")

	idle, _ := ftTask("idle", "", true) // ACTIVE, STANDBY, no parent: claimable
	idle.className = "k1"
	foreign, foreignRole := ftTask("foreign", envB, true)
	w := ftManager(Tasks{idle, foreign}, nil)
	w.m.AgentCache.Update(AgentCacheInfo{AgentId: mesos.AgentID{Value: idle.agentId}, Hostname: idle.hostname})
	tasksToDeploy := make(chan *ResourceOffersDeploymentRequest, 4)
	w.m.tasksToDeploy = tasksToDeploy
	w.m.reviveOffersTrg = make(chan struct{})
	roles := []*ftRole{
		{path: "root.k1", envId: envA, traits: Traits{Critical: true, Timeout: "10s"}},
		{path: "root.k2", envId: envA, traits: Traits{Critical: secondCritical, Timeout: "10s"}},
	}
	var descriptors Descriptors
	for i, n := range []string{"k1", "k2"} {
		class := &taskclass.Class{Defaults: gera.MakeMap[string, string](), Vars: gera.MakeMap[string, string](), Properties: gera.MakeMap[string, string]()}
		class.Identifier = taskclass.Id{Name: n}
		w.m.classes.UpdateClass(n, class)
		descriptors = append(descriptors, &Descriptor{TaskRole: roles[i], TaskClassName: n})
	}
	idle.GetTaskClass = func() *taskclass.Class { return w.m.GetTaskClass("k1") }
	if vrt.Bool("only.the.first.descriptor") { // an environment with a single task
		descriptors = descriptors[:1]
	}
	// the scheduler side
	launchedFor := map[*Descriptor]*Task{}
	var everLaunched []*Task // also by attempts that failed as a whole and were retried
	go func() {
		for {
			<-w.m.reviveOffersTrg
			w.m.reviveOffersTrg <- struct{}{}
			req := <-tasksToDeploy
			out := ResourceOffersOutcome{deployed: DeploymentMap{}}
			for _, d := range req.tasksToDeploy {
				k := 0
				if d.TaskClassName == "k2" {
					k = 1
				}
				switch verdict[k] {
				case launched:
					offer := &mesos.Offer{ID: mesos.OfferID{Value: "offer-" + d.TaskClassName}, AgentID: mesos.AgentID{Value: "agent-new"}, Hostname: "host-new"}
					t := w.m.newTaskForMesosOffer(offer, d, nil, mesos.ExecutorID{Value: "exec-new"})
					launchedFor[d] = t // (a new attempt launches anew: the earlier attempt's task is the cleanup's business)
					everLaunched = append(everLaunched, t)
					out.deployed[t] = d
				case notThisRound:
					out.undeployed = append(out.undeployed, d)
				case impossible:
					out.undeployable = append(out.undeployable, d)
				}
			}
			req.outcomeCh <- out
		}
	}()

	err := w.m.acquireTasks(envA, descriptors)

	reused := reuse // the idle task of class k1 is taken over instead of launching one
	missing := func(k int) bool { return verdict[k] != launched && !(k == 0 && reused) }
	wantOK := !missing(0) && !(len(descriptors) == 2 && secondCritical && missing(1))
	vrt.Assert((err == nil) == wantOK, "acquisition-succeeds-iff-no-critical-descriptor-stayed-without-a-task")
	vrt.Assert(foreign.parent == foreignRole && w.m.GetTask(foreign.taskId) == foreign, "task-of-another-environment-is-not-touched")
	if err == nil {
		for k, d := range descriptors {
			t := launchedFor[d]
			if k == 0 && reused {
				t = idle
			}
			if t == nil {
				continue // non-critical descriptor without a task
			}
			vrt.Assert(t.GetParent() == parentRole(roles[k]) && t.IsLocked(), "acquired-task-is-owned-by-the-role-it-was-meant-for")
			vrt.Assert(w.m.GetTask(t.taskId) == t, "acquired-task-is-in-the-roster")
		}
		if reused {
			vrt.Reach("reused")
		}
		vrt.Reach("acquired")
	} else {
		for _, t := range everLaunched {
			vrt.Assert(t.GetParent() == nil, "failed-acquisition-leaves-no-task-owned")
			vrt.Assert(w.m.GetTask(t.taskId) == t, "tasks-launched-by-a-failed-acquisition-are-in-the-roster-for-the-next-cleanup")
		}
		vrt.Assert(idle.GetParent() == nil, "failed-acquisition-leaves-the-reusable-task-unowned")
		vrt.Reach("failed")
	}
}

// Two environments acquire their tasks at the same time with the reuse of unlocked tasks switched on. Both need a task
// of class k1 and the roster holds exactly one idle, unlocked task of that class; A needs a k2 task in addition (it has
// to be launched, so A waits for the scheduler side), B does not. The scheduler side answers per class: launched, or not
// launched (A's k2 critical: the acquisition fails after its retries).
//   - whatever the interleaving, the idle task ends up known to at most one of the two roles, and a role that knows a
//     task owns it (Task.parent is that role): no environment is left holding - and later controlling, releasing or
//     killing - a task that belongs to the other or to nobody;
//   - an acquisition that succeeded has a task for k1 which its role owns; one that failed owns nothing.
//verif:entry HarnessTwoAcquisitions unwind=24 preempt=1 timers=lazy reach=both-acquired,one-failed,idle-reused stub=github.com/AliceO2Group/Control/common/utils.TimeTrack
//verif:thorough HarnessTwoAcquisitions preempt=3
func HarnessTwoAcquisitions() {
	envA, envB := uid.ID("2envAAAAAAA"), uid.ID("2envBBBBBBB")
	viper.Set("reuseUnlockedTasks", true)
	k2Launched := vrt.Bool("A.second.task.is.launched")
	idle, _ := ftTask("idle", "", true)
	idle.className = "k1"
	w := ftManager(Tasks{idle}, nil)
	w.m.AgentCache.Update(AgentCacheInfo{AgentId: mesos.AgentID{Value: idle.agentId}, Hostname: idle.hostname})
	tasksToDeploy := make(chan *ResourceOffersDeploymentRequest, 4)
	w.m.tasksToDeploy = tasksToDeploy
	w.m.reviveOffersTrg = make(chan struct{})
	for _, n := range []string{"k1", "k2"} {
		class := &taskclass.Class{Defaults: gera.MakeMap[string, string](), Vars: gera.MakeMap[string, string](), Properties: gera.MakeMap[string, string]()}
		class.Identifier = taskclass.Id{Name: n}
		w.m.classes.UpdateClass(n, class)
	}
	idle.GetTaskClass = func() *taskclass.Class { return w.m.GetTaskClass("k1") }
	aK1 := &ftRole{path: "a.k1", envId: envA, traits: Traits{Critical: true, Timeout: "10s"}}
	aK2 := &ftRole{path: "a.k2", envId: envA, traits: Traits{Critical: true, Timeout: "10s"}}
	bK1 := &ftRole{path: "b.k1", envId: envB, traits: Traits{Critical: true, Timeout: "10s"}}
	descA := Descriptors{{TaskRole: aK1, TaskClassName: "k1"}, {TaskRole: aK2, TaskClassName: "k2"}}
	descB := Descriptors{{TaskRole: bK1, TaskClassName: "k1"}}
	n := 0
	go func() { // the scheduler side
		for {
			<-w.m.reviveOffersTrg
			w.m.reviveOffersTrg <- struct{}{}
			req := <-tasksToDeploy
			out := ResourceOffersOutcome{deployed: DeploymentMap{}}
			for _, d := range req.tasksToDeploy {
				if d.TaskClassName == "k2" && !k2Launched {
					out.undeployable = append(out.undeployable, d)
					continue
				}
				n++
				id := string(rune('0' + n))
				offer := &mesos.Offer{ID: mesos.OfferID{Value: "offer-" + id}, AgentID: mesos.AgentID{Value: "agent-new"}, Hostname: "host-new"}
				out.deployed[w.m.newTaskForMesosOffer(offer, d, nil, mesos.ExecutorID{Value: "exec-" + id})] = d
			}
			req.outcomeCh <- out
		}
	}()
	var errA, errB error
	doneA, doneB := make(chan struct{}), make(chan struct{})
	go func() { errA = w.m.acquireTasks(envA, descA); close(doneA) }()
	go func() { errB = w.m.acquireTasks(envB, descB); close(doneB) }()
	<-doneA
	<-doneB

	vrt.Assert((errA == nil) == k2Launched, "first-acquisition-succeeds-iff-its-critical-task-could-be-launched")
	vrt.Assert(errB == nil, "second-acquisition-succeeds")
	vrt.Assert(!(aK1.task == idle && bK1.task == idle), "a-reused-task-is-given-to-one-environment-only")
	for _, r := range []*ftRole{aK1, aK2, bK1} {
		if r.task != nil {
			vrt.Assert(r.task.GetParent() == parentRole(r), "a-role-knows-a-task-only-if-it-owns-it")
			vrt.Assert(w.m.GetTask(r.task.taskId) == r.task, "acquired-task-is-in-the-roster")
		}
	}
	if p := idle.GetParent(); p != nil {
		vrt.Assert((p == parentRole(aK1) && aK1.task == idle) || (p == parentRole(bK1) && bK1.task == idle), "the-owner-of-the-reused-task-knows-it")
		vrt.Reach("idle-reused")
	}
	if errA == nil {
		vrt.Assert(aK1.task != nil && aK2.task != nil, "successful-acquisition-has-a-task-per-descriptor")
		vrt.Reach("both-acquired")
	} else {
		vrt.Assert(idle.GetParent() != parentRole(aK1), "failed-acquisition-leaves-no-task-owned")
		vrt.Reach("one-failed")
	}
	vrt.Assert(bK1.task != nil, "successful-acquisition-has-a-task-per-descriptor")
}

// A cleanup of unowned tasks (or a kill naming the task) runs while environment A acquires its only task with the reuse
// of unlocked tasks switched on; the roster holds one idle, unlocked task of the class A needs. Either A reuses the
// task and the cleanup leaves it alone, or the cleanup takes it and A launches its own - but no KILL is sent for a task
// at a moment when an environment owns it, and A never ends up owning a task the cleanup asked Mesos to kill.
//verif:entry HarnessCleanupRacingClaim unwind=24 preempt=1 timers=lazy reach=reused-and-spared,killed-and-launched stub=github.com/AliceO2Group/Control/common/utils.TimeTrack
//verif:thorough HarnessCleanupRacingClaim preempt=3
func HarnessCleanupRacingClaim() {
	envA := uid.ID("2envAAAAAAA")
	viper.Set("reuseUnlockedTasks", true)
	byName := vrt.Bool("kill.names.the.task") // KillTasks([id]) instead of Cleanup()
	idle, _ := ftTask("idle", "", true)
	idle.className = "k1"
	w := ftManager(Tasks{idle}, nil)
	w.m.AgentCache.Update(AgentCacheInfo{AgentId: mesos.AgentID{Value: idle.agentId}, Hostname: idle.hostname})
	tasksToDeploy := make(chan *ResourceOffersDeploymentRequest, 4)
	w.m.tasksToDeploy = tasksToDeploy
	w.m.reviveOffersTrg = make(chan struct{})
	class := &taskclass.Class{Defaults: gera.MakeMap[string, string](), Vars: gera.MakeMap[string, string](), Properties: gera.MakeMap[string, string]()}
	class.Identifier = taskclass.Id{Name: "k1"}
	w.m.classes.UpdateClass("k1", class)
	idle.GetTaskClass = func() *taskclass.Class { return w.m.GetTaskClass("k1") }
	aK1 := &ftRole{path: "a.k1", envId: envA, traits: Traits{Critical: true, Timeout: "10s"}}
	ownedWhenKilled := false
	w.caller.onKill = func(id string) {
		if id == idle.taskId && idle.parent != nil {
			ownedWhenKilled = true
		}
		st := mesos.TASK_KILLED // Mesos confirms the kill with a terminal status update
		go w.m.updateTaskStatus(&mesos.TaskStatus{TaskID: mesos.TaskID{Value: id}, State: &st})
	}
	go func() { // the scheduler side
		for {
			<-w.m.reviveOffersTrg
			w.m.reviveOffersTrg <- struct{}{}
			req := <-tasksToDeploy
			out := ResourceOffersOutcome{deployed: DeploymentMap{}}
			for _, d := range req.tasksToDeploy {
				offer := &mesos.Offer{ID: mesos.OfferID{Value: "offer-new"}, AgentID: mesos.AgentID{Value: "agent-new"}, Hostname: "host-new"}
				out.deployed[w.m.newTaskForMesosOffer(offer, d, nil, mesos.ExecutorID{Value: "exec-new"})] = d
			}
			req.outcomeCh <- out
		}
	}()
	var errA error
	doneA, doneK := make(chan struct{}), make(chan struct{})
	go func() { errA = w.m.acquireTasks(envA, Descriptors{{TaskRole: aK1, TaskClassName: "k1"}}); close(doneA) }()
	go func() {
		if byName {
			_, _, _ = w.m.KillTasks([]string{idle.taskId})
		} else {
			_, _, _ = w.m.Cleanup()
		}
		close(doneK)
	}()
	<-doneA
	<-doneK

	vrt.Assert(errA == nil && aK1.task != nil, "acquisition-succeeds")
	vrt.Assert(aK1.task.GetParent() == parentRole(aK1), "a-role-knows-a-task-only-if-it-owns-it")
	vrt.Assert(!ownedWhenKilled, "no-kill-is-sent-for-a-task-an-environment-owns")
	if aK1.task == idle {
		vrt.Assert(w.caller.killed(idle.taskId) == 0, "a-task-the-cleanup-asked-to-kill-is-not-given-to-an-environment")
		vrt.Assert(w.m.GetTask(idle.taskId) == idle, "acquired-task-is-in-the-roster")
		vrt.Reach("reused-and-spared")
	} else {
		vrt.Assert(idle.GetParent() == nil, "a-task-not-given-to-the-environment-stays-unowned")
		vrt.Reach("killed-and-launched")
	}
}
