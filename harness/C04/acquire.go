//go:build verif

package task

//verif:pkg core/task

import (
	"github.com/AliceO2Group/Control/common/gera"
	"github.com/AliceO2Group/Control/common/utils/uid"
	"github.com/AliceO2Group/Control/core/task/taskclass"
	vrt "github.com/AliceO2Group/Control/zz_vrt"
	mesos "github.com/mesos/mesos-go/api/v1/lib"
	"github.com/spf13/viper"
)

// Manager.acquireTasks for one or two task descriptors of environment A (the second critical or not), with or without the
// reuse of unlocked tasks, against a scheduler side that answers every deployment attempt with the same verdict per
// descriptor - launched, not launched this round, impossible to place. The roster already holds an idle, unlocked task
// of the first class (reusable) and a task owned by environment B.
//   - success iff no critical descriptor stayed without a task; then every task launched or reused for A is owned by
//     the role it was meant for, known to that role and in the roster;
//   - on failure nothing is owned by A: the tasks that were launched are in the roster, unowned (the next cleanup
//     finds them), the reusable task is still unowned;
//   - B's task is never touched; the core survives (no panic, no fatal lock misuse).
//verif:entry HarnessAcquireTasks unwind=24 preempt=0 timers=lazy reach=acquired,failed,reused stub=github.com/AliceO2Group/Control/common/utils.TimeTrack
func HarnessAcquireTasks() {
	envA, envB := uid.ID("2envAAAAAAA"), uid.ID("2envBBBBBBB")
	const (
		launched = iota
		notThisRound
		impossible
	)
	reuse := vrt.Bool("reuse.unlocked.tasks")
	viper.Set("reuseUnlockedTasks", reuse)
	verdict := []int{vrt.IntRange("verdict", launched, impossible), vrt.IntRange("verdict", launched, impossible)}
	secondCritical := vrt.Bool("second.critical")

	idle, _ := ftTask("idle", "", true) // ACTIVE, STANDBY, no parent: claimable
	idle.className = "k1"
	foreign, foreignRole := ftTask("foreign", envB, true)
	w := ftManager(Tasks{idle, foreign}, nil)
	w.m.AgentCache.Update(AgentCacheInfo{AgentId: mesos.AgentID{Value: idle.agentId}, Hostname: idle.hostname})
	tasksToDeploy := make(chan *ResourceOffersDeploymentRequest, 4)
	w.m.tasksToDeploy = tasksToDeploy
	w.m.reviveOffersTrg = make(chan struct{})
	roles := []*ftRole{
		{path: "root.k1", envId: envA, traits: Traits{Critical: true, Timeout: "10s"}},
		{path: "root.k2", envId: envA, traits: Traits{Critical: secondCritical, Timeout: "10s"}},
	}
	var descriptors Descriptors
	for i, n := range []string{"k1", "k2"} {
		class := &taskclass.Class{Defaults: gera.MakeMap[string, string](), Vars: gera.MakeMap[string, string](), Properties: gera.MakeMap[string, string]()}
		class.Identifier = taskclass.Id{Name: n}
		w.m.classes.UpdateClass(n, class)
		descriptors = append(descriptors, &Descriptor{TaskRole: roles[i], TaskClassName: n})
	}
	idle.GetTaskClass = func() *taskclass.Class { return w.m.GetTaskClass("k1") }
	if vrt.Bool("only.the.first.descriptor") { // an environment with a single task
		descriptors = descriptors[:1]
	}
	// the scheduler side
	launchedFor := map[*Descriptor]*Task{}
	var everLaunched []*Task // also by attempts that failed as a whole and were retried
	go func() {
		for {
			<-w.m.reviveOffersTrg
			w.m.reviveOffersTrg <- struct{}{}
			req := <-tasksToDeploy
			out := ResourceOffersOutcome{deployed: DeploymentMap{}}
			for _, d := range req.tasksToDeploy {
				k := 0
				if d.TaskClassName == "k2" {
					k = 1
				}
				switch verdict[k] {
				case launched:
					offer := &mesos.Offer{ID: mesos.OfferID{Value: "offer-" + d.TaskClassName}, AgentID: mesos.AgentID{Value: "agent-new"}, Hostname: "host-new"}
					t := w.m.newTaskForMesosOffer(offer, d, nil, mesos.ExecutorID{Value: "exec-new"})
					launchedFor[d] = t // (a new attempt launches anew: the earlier attempt's task is the cleanup's business)
					everLaunched = append(everLaunched, t)
					out.deployed[t] = d
				case notThisRound:
					out.undeployed = append(out.undeployed, d)
				case impossible:
					out.undeployable = append(out.undeployable, d)
				}
			}
			req.outcomeCh <- out
		}
	}()

	err := w.m.acquireTasks(envA, descriptors)

	reused := reuse // the idle task of class k1 is taken over instead of launching one
	missing := func(k int) bool { return verdict[k] != launched && !(k == 0 && reused) }
	wantOK := !missing(0) && !(len(descriptors) == 2 && secondCritical && missing(1))
	vrt.Assert((err == nil) == wantOK, "acquisition-succeeds-iff-no-critical-descriptor-stayed-without-a-task")
	vrt.Assert(foreign.parent == foreignRole && w.m.GetTask(foreign.taskId) == foreign, "task-of-another-environment-is-not-touched")
	if err == nil {
		for k, d := range descriptors {
			t := launchedFor[d]
			if k == 0 && reused {
				t = idle
			}
			if t == nil {
				continue // non-critical descriptor without a task
			}
			vrt.Assert(t.GetParent() == parentRole(roles[k]) && t.IsLocked(), "acquired-task-is-owned-by-the-role-it-was-meant-for")
			vrt.Assert(w.m.GetTask(t.taskId) == t, "acquired-task-is-in-the-roster")
		}
		if reused {
			vrt.Reach("reused")
		}
		vrt.Reach("acquired")
	} else {
		for _, t := range everLaunched {
			vrt.Assert(t.GetParent() == nil, "failed-acquisition-leaves-no-task-owned")
			vrt.Assert(w.m.GetTask(t.taskId) == t, "tasks-launched-by-a-failed-acquisition-are-in-the-roster-for-the-next-cleanup")
		}
		vrt.Assert(idle.GetParent() == nil, "failed-acquisition-leaves-the-reusable-task-unowned")
		vrt.Reach("failed")
	}
}
