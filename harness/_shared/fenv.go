//go:build verif

package environment

//verif:pkg core/environment
//verif:hook core/the ConfSvc
//verif:hook core/workflow/callable Call.Call
//verif:hook core/workflow/callable Call.Start

// Shared set-up for the harnesses that drive a real Environment (FSM table, callbacks, handleHooks,
// TryTransition) with the outside world replaced: configuration service, integration calls.

import (
	"errors"
	"sync"

	"github.com/AliceO2Group/Control/common/event"
	"github.com/AliceO2Group/Control/common/utils/uid"
	"github.com/AliceO2Group/Control/configuration"
	"github.com/AliceO2Group/Control/core/task"
	"github.com/AliceO2Group/Control/core/the"
	"github.com/AliceO2Group/Control/core/workflow"
	"github.com/AliceO2Group/Control/core/workflow/callable"
	vrt "github.com/AliceO2Group/Control/zz_vrt"
)

// fenvConf is the configuration service seen by the environment.
type fenvConf struct {
	configuration.Service
	mu      sync.Mutex
	rnFails func() bool   // decides whether the next NewRunNumber fails
	rnNext  func() uint32 // the number handed out otherwise
	rnJunk  func() uint32 // what comes back next to the error when the allocation fails (a lost CAS returns the number it tried)
	rnCalls int
}

func (c *fenvConf) GetDefaults() map[string]string { return map[string]string{} }
func (c *fenvConf) GetVars() map[string]string     { return map[string]string{} }
func (c *fenvConf) NewRunNumber() (uint32, error) {
	c.mu.Lock()
	defer c.mu.Unlock()
	c.rnCalls++
	if c.rnFails != nil && c.rnFails() {
		if c.rnJunk != nil {
			return c.rnJunk(), errors.New("cannot advance the run number counter")
		}
		return 0, errors.New("cannot advance the run number counter")
	}
	if c.rnNext != nil {
		return c.rnNext(), nil
	}
	return uint32(100 + c.rnCalls), nil
}

// fenvRec records, in order, what the environment did that an observer can see.
type fenvRec struct {
	mu     sync.Mutex
	trace  []string
	onCall func(c *callable.Call) error // behaviour of an integration call (after "call:<name>:start" was recorded)
}

func (r *fenvRec) add(s string) {
	r.mu.Lock()
	r.trace = append(r.trace, s)
	r.mu.Unlock()
}

func (r *fenvRec) index(s string) int {
	r.mu.Lock()
	defer r.mu.Unlock()
	for i, x := range r.trace {
		if x == s {
			return i
		}
	}
	return -1
}

func (r *fenvRec) count(s string) int {
	r.mu.Lock()
	defer r.mu.Unlock()
	n := 0
	for _, x := range r.trace {
		if x == s {
			n++
		}
	}
	return n
}

func (r *fenvRec) countPrefix(p string) int {
	r.mu.Lock()
	defer r.mu.Unlock()
	n := 0
	for _, x := range r.trace {
		if len(x) >= len(p) && x[:len(p)] == p {
			n++
		}
	}
	return n
}

// fenvTransition is a Transition whose task part is the harness.
type fenvTransition struct {
	name string
	rec  *fenvRec
	fail func() bool
	body func(env *Environment)
}

func (t fenvTransition) eventName() string { return t.name }
func (t fenvTransition) check() error      { return nil }
func (t fenvTransition) do(env *Environment) error {
	t.rec.add("do:" + t.name + ":begin")
	if t.body != nil {
		t.body(env)
	}
	t.rec.add("do:" + t.name + ":end")
	if t.fail != nil && t.fail() {
		return errors.New("task transition " + t.name + " failed")
	}
	return nil
}

// fenvHook describes one integration call hook of the workflow.
type fenvHook struct {
	name     string
	trigger  string // e.g. "before_CONFIGURE-10"
	await    string // "" = same as trigger
	critical bool
}

// fenvNew builds an environment in the given state with a workflow made of the given call hooks.
func fenvNew(conf *fenvConf, rec *fenvRec, state string, hooks []fenvHook) *Environment {
	the.VerifHook_ConfSvc = func() configuration.Service { return conf }
	callable.VerifHook_Call_Call = func(c *callable.Call) error {
		rec.add("call:" + c.GetName() + ":start")
		var err error
		if rec.onCall != nil {
			err = rec.onCall(c)
		}
		rec.add("call:" + c.GetName() + ":end")
		return err
	}
	callable.VerifHook_Call_Start = func(c *callable.Call) {
		rec.add("launch:" + c.GetName()) // the moment the state machine fires the hook (the call itself runs asynchronously)
		c.VerifOrig_Call_Start()
	}
	envId, _ := uid.FromString("2oDvieFrVTi")
	env, err := newEnvironment(map[string]string{}, envId)
	vrt.Assert(err == nil && env != nil, "environment-can-be-created")
	var roles []workflow.Role
	for _, h := range hooks {
		await := h.await
		if await == "" {
			await = h.trigger
		}
		roles = append(roles, workflow.NewCallRole(h.name, task.Traits{Trigger: h.trigger, Await: await, Timeout: "5s", Critical: h.critical}, "verif.Hook()", ""))
	}
	env.workflow = workflow.NewAggregatorRole("root", roles)
	workflow.LinkChildrenToParents(env.workflow)
	workflow.VerifAttach(env.workflow, env.wfAdapter)
	env.Sm.SetState(state)
	return env
}

// fenvTaskman is a task manager whose only behaviour is to answer every task-transition message of the
// environment's real transition bodies with the outcome chosen by `fails`.
func fenvTaskman(rec *fenvRec, env *Environment, fails func(n int) bool) *task.Manager {
	tm := &task.Manager{MessageChannel: make(chan *task.TaskmanMessage, 4)}
	go func() {
		n := 0
		for range tm.MessageChannel {
			rec.add("taskman:message")
			var err error
			if fails != nil && fails(n) {
				err = errors.New("a critical task could not make the transition")
			}
			n++
			env.stateChangedCh <- &event.TasksStateChangedEvent{EnvironmentId: env.Id(), TaskStateChangedErr: err}
		}
	}()
	return tm
}

func failingCall(c *callable.Call) error { return errors.New("hook " + c.GetName() + " failed") }
