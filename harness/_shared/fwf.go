//go:build verif

package workflow

//verif:pkg core/workflow

import (
	"github.com/AliceO2Group/Control/common/gera"
	"github.com/AliceO2Group/Control/core/task"
	"github.com/AliceO2Group/Control/core/task/sm"
)

// VerifTaskRole builds an ACTIVE task role around a deployed task (harness helper: the type is unexported).
func VerifTaskRole(name string, critical bool, t *task.Task) Role {
	r := &taskRole{
		roleBase: roleBase{Name: name, Defaults: gera.MakeMap[string, string](), Vars: gera.MakeMap[string, string](), UserVars: gera.MakeMap[string, string]()},
		Traits:   task.Traits{Critical: critical},
		Task:     t,
	}
	r.status.status = task.ACTIVE
	if t != nil {
		t.SetParent(r)
	}
	return r
}

// VerifHookTaskRole is VerifTaskRole for a task used as a hook (trigger = await).
func VerifHookTaskRole(name string, trigger string, critical bool, t *task.Task) Role {
	r := VerifTaskRole(name, critical, t).(*taskRole)
	r.Traits = task.Traits{Trigger: trigger, Await: trigger, Timeout: "10s", Critical: critical}
	return r
}

// VerifSetTimeout sets the timeout trait of a task role.
func VerifSetTimeout(r Role, timeout string) {
	if tr, ok := r.(*taskRole); ok {
		tr.Traits.Timeout = timeout
	}
}

// VerifSetStatus sets the cached status of a task role (e.g. INACTIVE for a hook that already died).
func VerifSetStatus(r Role, s task.Status) {
	if tr, ok := r.(*taskRole); ok {
		tr.status.status = s
	}
}

// VerifSetState sets the cached state of a task role (e.g. ERROR for a task that announced an internal error and
// is still alive).
func VerifSetState(r Role, s sm.State) {
	if tr, ok := r.(*taskRole); ok {
		tr.state.state = s
	}
}

// VerifAttach hangs a workflow root under the environment's parent adapter (what workflow.Load does).
func VerifAttach(root Role, parent *ParentAdapter) {
	root.setParent(parent)
}

// VerifLoadableTaskRole builds a task role that has no task yet: deployment has to launch one of the given class.
func VerifLoadableTaskRole(name string, class string, critical bool) Role {
	r := VerifTaskRole(name, critical, nil).(*taskRole)
	r.LoadTaskClass = class
	r.Traits.Timeout = "10s"
	r.status.status = task.INACTIVE
	return r
}
