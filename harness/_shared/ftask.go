//go:build verif

package task

//verif:pkg core/task

// Shared set-up for the harnesses that drive a real task.Manager (roster, command queue, servent) with
// Mesos replaced: the message sender and the scheduler's call client are the harness.

import (
	"context"
	"sync"

	"github.com/AliceO2Group/Control/common"
	"github.com/AliceO2Group/Control/common/event"
	"github.com/AliceO2Group/Control/common/gera"
	"github.com/AliceO2Group/Control/common/utils/safeacks"
	"github.com/AliceO2Group/Control/common/utils/uid"
	"github.com/AliceO2Group/Control/core/controlcommands"
	"github.com/AliceO2Group/Control/core/task/channel"
	"github.com/AliceO2Group/Control/core/task/sm"
	"github.com/AliceO2Group/Control/core/task/taskclass"
	mesos "github.com/mesos/mesos-go/api/v1/lib"
	"github.com/mesos/mesos-go/api/v1/lib/scheduler"
)

// ftRole is the role a task hangs under; it records what the task manager tells it.
type ftRole struct {
	mu       sync.Mutex
	path     string
	envId    uid.ID
	traits   Traits
	states   []sm.State
	statuses []Status
	inbound  []channel.Inbound
	outbound []channel.Outbound
	vars     map[string]string
	task     *Task // what SetTask was last given (the real taskRole.SetTask is a plain store as well)
}

func (r *ftRole) UpdateStatus(s Status) {
	r.mu.Lock()
	r.statuses = append(r.statuses, s)
	r.mu.Unlock()
}
func (r *ftRole) UpdateState(s sm.State) {
	r.mu.Lock()
	r.states = append(r.states, s)
	r.mu.Unlock()
}
func (r *ftRole) GetPath() string                             { return r.path }
func (r *ftRole) GetTaskClass() string                        { return "class-" + r.path }
func (r *ftRole) GetTaskTraits() Traits                       { return r.traits }
func (r *ftRole) SetTask(t *Task)                             { r.task = t }
func (r *ftRole) GetEnvironmentId() uid.ID                    { return r.envId }
func (r *ftRole) CollectOutboundChannels() []channel.Outbound { return r.outbound }
func (r *ftRole) CollectInboundChannels() []channel.Inbound   { return r.inbound }
func (r *ftRole) GetDefaults() gera.Map[string, string]       { return gera.MakeMap[string, string]() }
func (r *ftRole) GetVars() gera.Map[string, string]           { return gera.MakeMap[string, string]() }
func (r *ftRole) GetUserVars() gera.Map[string, string]       { return gera.MakeMap[string, string]() }
func (r *ftRole) ConsolidatedVarStack() (map[string]string, error) {
	m := map[string]string{}
	for k, v := range r.vars {
		m[k] = v
	}
	return m, nil
}
func (r *ftRole) SendEvent(event.Event) {}
func (r *ftRole) GetName() string       { return r.path }

func (r *ftRole) lastState() (sm.State, bool) {
	r.mu.Lock()
	defer r.mu.Unlock()
	if len(r.states) == 0 {
		return 0, false
	}
	return r.states[len(r.states)-1], true
}

// ftTask makes a deployed task. owner == "" makes it unowned (no parent).
func ftTask(name string, owner uid.ID, critical bool) (*Task, *ftRole) {
	role := &ftRole{path: "root." + name, envId: owner, traits: Traits{Critical: critical, Timeout: "10s"}}
	class := &taskclass.Class{}
	cmdValue, shell := "cmd-"+name, false
	t := &Task{
		name: name, className: "class-" + name, hostname: "host-" + name, agentId: "agent-" + name, offerId: "offer-" + name,
		taskId: "task-" + name, executorId: "exec-" + name,
		status: ACTIVE, state: sm.STANDBY,
		commandInfo:  &common.TaskCommandInfo{CommandInfo: common.CommandInfo{Value: &cmdValue, Shell: &shell}},
		GetTaskClass: func() *taskclass.Class { return class },
		localBindMap: channel.BindMap{},
		properties:   gera.MakeMap[string, string](),
	}
	if owner != "" {
		t.parent = role
	}
	return t, role
}

// ftCaller records the calls the scheduler side would send to the Mesos master.
type ftCaller struct {
	mu         sync.Mutex
	kills      []string // task ids of KILL calls
	other      int
	reconciles []int // number of tasks listed by each RECONCILE call (0 = implicit reconciliation)
	accepts    []ftAccept
	declined   []string // offer ids of DECLINE calls
	fail       func(taskId string) bool
	onKill     func(taskId string) // what Mesos does after accepting a KILL (e.g. report TASK_KILLED)
}

func (c *ftCaller) Call(ctx context.Context, call *scheduler.Call) (mesos.Response, error) {
	c.mu.Lock()
	defer c.mu.Unlock()
	if call.GetType() == scheduler.Call_KILL {
		id := call.GetKill().GetTaskID().Value
		c.kills = append(c.kills, id)
		if c.fail != nil && c.fail(id) {
			return nil, context.DeadlineExceeded
		}
		if c.onKill != nil {
			c.onKill(id)
		}
		return nil, nil
	}
	if call.GetType() == scheduler.Call_ACCEPT {
		a := ftAccept{}
		for _, o := range call.GetAccept().GetOfferIDs() {
			a.offers = append(a.offers, o.Value)
		}
		for _, op := range call.GetAccept().GetOperations() {
			if l := op.GetLaunch(); l != nil {
				a.tasks = append(a.tasks, l.TaskInfos...)
			}
		}
		c.accepts = append(c.accepts, a)
		return nil, nil
	}
	if call.GetType() == scheduler.Call_DECLINE {
		for _, o := range call.GetDecline().GetOfferIDs() {
			c.declined = append(c.declined, o.Value)
		}
		return nil, nil
	}
	if call.GetType() == scheduler.Call_RECONCILE {
		c.reconciles = append(c.reconciles, len(call.GetReconcile().GetTasks()))
		return nil, nil
	}
	c.other++
	return nil, nil
}

func (c *ftCaller) killed(id string) int {
	c.mu.Lock()
	defer c.mu.Unlock()
	n := 0
	for _, k := range c.kills {
		if k == id {
			n++
		}
	}
	return n
}

// ftAccept is one ACCEPT call: the offers it uses and the tasks it launches on them.
type ftAccept struct {
	offers []string
	tasks  []mesos.TaskInfo
}

// ftFidStore is the framework id store (store.Singleton) of the scheduler.
type ftFidStore struct{ v string }

func (f *ftFidStore) Get() (string, error) { return f.v, nil }
func (f *ftFidStore) Set(v string) error   { f.v = v; return nil }

type ftWorld struct {
	m       *Manager
	servent *controlcommands.Servent
	caller  *ftCaller
	events  chan event.Event
}

// ftManager builds a task manager around the given tasks. send is the Mesos MESSAGE path.
func ftManager(tasks Tasks, send controlcommands.SendCommandFunc) *ftWorld {
	w := &ftWorld{caller: &ftCaller{}, events: make(chan event.Event, 16)}
	w.servent = controlcommands.NewServent(send)
	cq := controlcommands.NewCommandQueue(w.servent)
	cq.Start()
	w.m = &Manager{
		classes:         taskclass.NewClasses(),
		roster:          newRoster(),
		cq:              cq,
		internalEventCh: w.events,
		ackKilledTasks:  safeacks.NewAcks(),
	}
	w.m.schedulerState = &schedulerState{cli: w.caller, servent: w.servent, commandqueue: cq, taskman: w.m, fidStore: &ftFidStore{v: "framework-1"}}
	for _, t := range tasks {
		w.m.roster.append(t)
	}
	return w
}
