//go:build verif

package task

//verif:pkg core/task

// Exported face of the F-task set-up, for harnesses living in other packages (environment).

import (
	"time"
	"github.com/AliceO2Group/Control/common"
	"github.com/AliceO2Group/Control/common/controlmode"
	"github.com/AliceO2Group/Control/common/event"
	"github.com/AliceO2Group/Control/common/gera"
	"github.com/AliceO2Group/Control/core/controlcommands"
	"github.com/AliceO2Group/Control/core/task/sm"
	"github.com/AliceO2Group/Control/core/task/taskclass"
	mesos "github.com/mesos/mesos-go/api/v1/lib"
)

type VerifWorld struct {
	M        *Manager
	Tasks    []*Task
	w        *ftWorld
	launched []*Task
}

// VerifNewWorld builds a task manager holding one deployed, still unowned task per name (a role takes
// ownership with Task.SetParent), with its message loop running and its events going to `events`.
func VerifNewWorld(names []string, events chan event.Event, send controlcommands.SendCommandFunc) *VerifWorld {
	var tasks Tasks
	for _, n := range names {
		t, _ := ftTask(n, "", true)
		tasks = append(tasks, t)
	}
	fw := ftManager(tasks, send)
	fw.m.internalEventCh = events
	fw.m.MessageChannel = make(chan *TaskmanMessage, 8)
	go func() {
		for msg := range fw.m.MessageChannel {
			fw.m.handleMessage(msg)
		}
	}()
	return &VerifWorld{M: fw.m, Tasks: tasks, w: fw}
}

// Reply delivers the executor's answer to a command, as the scheduler does (own goroutine).
func (v *VerifWorld) Reply(cmd controlcommands.MesosCommand, rcv controlcommands.MesosCommandTarget, err error) {
	res := controlcommands.NewMesosCommandResponse(cmd, err)
	go v.w.servent.ProcessResponse(res, rcv)
}

func (v *VerifWorld) Kills(taskId string) int { return v.w.caller.killed(taskId) }

func (v *VerifWorld) Owned(t *Task) bool { return t.GetParent() != nil }

func (v *VerifWorld) InRoster(t *Task) bool { return v.M.GetTask(t.GetTaskId()) == t }

// AgentLost puts t in the condition HandleAgentFailed leaves it in: agent id blanked (so no longer locked),
// ERROR and INACTIVE, still attached to its role.
func (v *VerifWorld) AgentLost(t *Task) {
	t.agentId = ""
	t.state = sm.ERROR
	t.status = INACTIVE
}

// SetKillBehaviour makes the fake Mesos master refuse the KILL calls chosen by fails and confirm every other one
// with a TASK_KILLED status update.
func (v *VerifWorld) SetKillBehaviour(fails func(taskId string) bool) {
	v.w.caller.fail = fails
	v.w.caller.onKill = func(id string) {
		st := mesos.TASK_KILLED
		go v.M.updateTaskStatus(&mesos.TaskStatus{TaskID: mesos.TaskID{Value: id}, State: &st})
	}
}

// VerifMessageTaskCount tells how many tasks a message to the task manager names.
func VerifMessageTaskCount(msg *TaskmanMessage) int { return len(msg.tasks) }

// Verdicts of the stand-in scheduler side for one descriptor of a deployment request.
const (
	VerifLaunched = iota
	VerifNotThisRound
	VerifImpossible
)

// ServeDeployments makes the world answer the deployment requests of Manager.acquireTasks (what the OFFERS handler
// does in the scheduler): every descriptor is launched, left for a later round or declared impossible to place as
// verdict says; with reportRunning a launched task is reported TASK_RUNNING by its executor right away (without, the
// executors have not reported yet when the deployment is given up). Launched returns the tasks
// launched so far (also those of attempts that failed as a whole).
func (v *VerifWorld) ServeDeployments(verdict func(className string) int, reportRunning bool) {
	tasksToDeploy := make(chan *ResourceOffersDeploymentRequest, 4)
	v.M.tasksToDeploy = tasksToDeploy
	v.M.reviveOffersTrg = make(chan struct{})
	go func() {
		for {
			<-v.M.reviveOffersTrg
			v.M.reviveOffersTrg <- struct{}{}
			req := <-tasksToDeploy
			out := ResourceOffersOutcome{deployed: DeploymentMap{}}
			for _, d := range req.tasksToDeploy {
				switch verdict(d.TaskClassName) {
				case VerifLaunched:
					offer := &mesos.Offer{ID: mesos.OfferID{Value: "offer-" + d.TaskClassName}, AgentID: mesos.AgentID{Value: "agent-new"}, Hostname: "host-new"}
					t := v.M.newTaskForMesosOffer(offer, d, nil, mesos.ExecutorID{Value: "exec-new"})
					cmdValue, shell := "cmd", false
					t.commandInfo = &common.TaskCommandInfo{CommandInfo: common.CommandInfo{Value: &cmdValue, Shell: &shell}}
					v.launched = append(v.launched, t)
					out.deployed[t] = d
					run := mesos.TASK_RUNNING
					st := &mesos.TaskStatus{TaskID: mesos.TaskID{Value: t.taskId}, State: &run, AgentID: &offer.AgentID, ExecutorID: &mesos.ExecutorID{Value: "exec-new"}}
					if reportRunning {
						go func() {
							// an executor needs time to start: the update reaches the core once the task is in the
							// roster (under the interpreter the timer fires when nothing else can run; a core that
							// receives TASK_RUNNING before acquireTasks has recorded the task drops the update -
							// "task not in roster" - which no real master is fast enough for)
							<-time.After(5 * time.Millisecond)
							v.M.MessageChannel <- NewTaskStatusMessage(*st)
						}()
					}
				case VerifNotThisRound:
					out.undeployed = append(out.undeployed, d)
				default:
					out.undeployable = append(out.undeployable, d)
				}
			}
			req.outcomeCh <- out
		}
	}()
}

func (v *VerifWorld) Launched() []*Task { return v.launched }

// RegisterClass puts a task class into the manager's class cache.
func (v *VerifWorld) RegisterClass(name string) {
	class := &taskclass.Class{Defaults: gera.MakeMap[string, string](), Vars: gera.MakeMap[string, string](), Properties: gera.MakeMap[string, string]()}
	class.Identifier = taskclass.Id{Name: name}
	class.Control.Mode = controlmode.DIRECT
	v.M.classes.UpdateClass(name, class)
}
