//go:build verif

package task

//verif:pkg core/task

// Exported face of the F-task set-up, for harnesses living in other packages (environment).

import (
	"github.com/AliceO2Group/Control/common/event"
	"github.com/AliceO2Group/Control/core/controlcommands"
	"github.com/AliceO2Group/Control/core/task/sm"
	mesos "github.com/mesos/mesos-go/api/v1/lib"
)

type VerifWorld struct {
	M     *Manager
	Tasks []*Task
	w     *ftWorld
}

// VerifNewWorld builds a task manager holding one deployed, still unowned task per name (a role takes
// ownership with Task.SetParent), with its message loop running and its events going to `events`.
func VerifNewWorld(names []string, events chan event.Event, send controlcommands.SendCommandFunc) *VerifWorld {
	var tasks Tasks
	for _, n := range names {
		t, _ := ftTask(n, "", true)
		tasks = append(tasks, t)
	}
	fw := ftManager(tasks, send)
	fw.m.internalEventCh = events
	fw.m.MessageChannel = make(chan *TaskmanMessage, 8)
	go func() {
		for msg := range fw.m.MessageChannel {
			fw.m.handleMessage(msg)
		}
	}()
	return &VerifWorld{M: fw.m, Tasks: tasks, w: fw}
}

// Reply delivers the executor's answer to a command, as the scheduler does (own goroutine).
func (v *VerifWorld) Reply(cmd controlcommands.MesosCommand, rcv controlcommands.MesosCommandTarget, err error) {
	res := controlcommands.NewMesosCommandResponse(cmd, err)
	go v.w.servent.ProcessResponse(res, rcv)
}

func (v *VerifWorld) Kills(taskId string) int { return v.w.caller.killed(taskId) }

func (v *VerifWorld) Owned(t *Task) bool { return t.GetParent() != nil }

func (v *VerifWorld) InRoster(t *Task) bool { return v.M.GetTask(t.GetTaskId()) == t }

// AgentLost puts t in the condition HandleAgentFailed leaves it in: agent id blanked (so no longer locked),
// ERROR and INACTIVE, still attached to its role.
func (v *VerifWorld) AgentLost(t *Task) {
	t.agentId = ""
	t.state = sm.ERROR
	t.status = INACTIVE
}

// SetKillBehaviour makes the fake Mesos master refuse the KILL calls chosen by fails and confirm every other one
// with a TASK_KILLED status update.
func (v *VerifWorld) SetKillBehaviour(fails func(taskId string) bool) {
	v.w.caller.fail = fails
	v.w.caller.onKill = func(id string) {
		st := mesos.TASK_KILLED
		go v.M.updateTaskStatus(&mesos.TaskStatus{TaskID: mesos.TaskID{Value: id}, State: &st})
	}
}

// VerifMessageTaskCount tells how many tasks a message to the task manager names.
func VerifMessageTaskCount(msg *TaskmanMessage) int { return len(msg.tasks) }
