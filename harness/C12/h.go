//go:build verif

package controlcommands

//verif:pkg core/controlcommands

import (
	"errors"
	"sync"
	"time"

	"github.com/AliceO2Group/Control/common/utils/uid"
	vrt "github.com/AliceO2Group/Control/zz_vrt"
	mesos "github.com/mesos/mesos-go/api/v1/lib"
)

func c12Target(name string) MesosCommandTarget {
	return MesosCommandTarget{AgentId: mesos.AgentID{Value: "agent-" + name}, ExecutorId: mesos.ExecutorID{Value: "exec-" + name}, TaskId: mesos.TaskID{Value: "task-" + name}}
}

func c12Cmd(targets ...MesosCommandTarget) *MesosCommand_Transition {
	return NewMesosCommand_Transition(uid.NilID(), targets, "STANDBY", "CONFIGURE", "CONFIGURED", nil)
}

// c12Reply builds the reply an executor would send for cmd (tagged so that replies can be told apart).
func c12Reply(cmd MesosCommand, tag string, fail bool) *MesosCommandResponse_Transition {
	var err error
	if fail {
		err = errors.New("task error " + tag)
	}
	return &MesosCommandResponse_Transition{MesosCommandResponseBase: *NewMesosCommandResponse(cmd, err), CurrentState: tag}
}

const c12Opts = "stub=github.com/AliceO2Group/Control/common/utils.TimeTrack"

// ---- one command, one target, against an adversary ---------------------------------------------------
//
// RunCommand(A -> t) runs while up to three replies arrive in their own goroutines (as the scheduler
// delivers them): each is, by solver choice, a reply to A or to another command B, from t or from another
// task u, with or without an error inside; the send may fail; the response timer may fire at any moment.
// The call must return its own reply (one addressed to A from t, delivered before the timer) or an error,
// never anything else, and must not leave its entry behind.
//
//verif:entry HarnessRunCommandVsAdversary unwind=8 timers=eager preempt=2 reach=own,timeout,sendfail stub=github.com/AliceO2Group/Control/common/utils.TimeTrack
//verif:thorough HarnessRunCommandVsAdversary preempt=3 paths=2000000
func HarnessRunCommandVsAdversary() {
	t, u := c12Target("t"), c12Target("u")
	A, B := c12Cmd(t, u), c12Cmd(t, u)
	sendFails := vrt.Bool("send.fails")
	sent := 0
	var s *Servent
	nReplies := vrt.IntRange("replies", 0, 2+vrt.Tier())
	var replyGoroutines sync.WaitGroup
	var delivered []*MesosCommandResponse_Transition
	var fromT, forA []bool
	s = NewServent(func(command MesosCommand, receiver MesosCommandTarget) error {
		sent++
		vrt.Assert(command.GetId() == A.GetId() && receiver == t, "sends-its-own-command-to-its-own-target")
		if sendFails {
			return errors.New("send failed")
		}
		// the world answers (or not) from now on
		for i := 0; i < nReplies; i++ {
			toA, sender := vrt.Bool("reply.toA"), vrt.Bool("reply.fromT")
			var r *MesosCommandResponse_Transition
			if toA {
				r = c12Reply(A, "A", vrt.Bool("reply.error"))
			} else {
				r = c12Reply(B, "B", false)
			}
			delivered, forA, fromT = append(delivered, r), append(forA, toA), append(fromT, sender)
			snd := u
			if sender {
				snd = t
			}
			replyGoroutines.Add(1)
			go func() {
				s.ProcessResponse(r, snd)
				replyGoroutines.Done()
			}()
		}
		return nil
	})
	res, err := s.RunCommand(A.MakeSingleTarget(t), t)
	vrt.Assert(sent == 1, "command-is-sent-exactly-once")
	if err == nil {
		// the command completed with a reply, exactly once: every other reply (duplicate, foreign, late) is
		// dropped, none is left waiting for a completion that already happened (a goroutine stuck here shows
		// up as a deadlock)
		replyGoroutines.Wait()
	}
	s.mu.Lock()
	left := len(s.pending)
	s.mu.Unlock()
	vrt.Assert(left == 0, "no-pending-entry-left-behind")
	if sendFails {
		vrt.Assert(err != nil && res == nil, "send-failure-is-reported")
		vrt.Reach("sendfail")
		return
	}
	if err != nil {
		vrt.Assert(res == nil, "error-carries-no-response")
		vrt.Reach("timeout")
		return
	}
	own := false
	for i, r := range delivered {
		if MesosCommandResponse(r) == res {
			vrt.Assert(forA[i] && fromT[i], "result-is-a-reply-to-this-command-from-this-target")
			own = true
		}
	}
	vrt.Assert(own, "result-is-one-of-the-delivered-replies")
	vrt.Assert(res.GetCommandId() == A.GetId(), "result-carries-this-command-id")
	vrt.Reach("own")
}

// ---- two commands in flight at the same time ----------------------------------------------------------
//
//verif:entry HarnessTwoCommandsInFlight unwind=8 timers=lazy preempt=2 reach=both stub=github.com/AliceO2Group/Control/common/utils.TimeTrack
//verif:thorough HarnessTwoCommandsInFlight preempt=4
func HarnessTwoCommandsInFlight() {
	t, u := c12Target("t"), c12Target("u")
	A, B := c12Cmd(t), c12Cmd(u)
	sameTarget := vrt.Bool("same.target")
	if sameTarget {
		B = c12Cmd(t)
		u = t
	}
	var s *Servent
	replyA, replyB := c12Reply(A, "A", vrt.Bool("A.error")), c12Reply(B, "B", vrt.Bool("B.error"))
	cross := vrt.Bool("replies.cross") // replies arrive in the opposite order of the requests
	s = NewServent(func(command MesosCommand, receiver MesosCommandTarget) error {
		if command.GetId() == A.GetId() {
			if cross {
				go func() { vrt.Yield(); s.ProcessResponse(replyA, t) }()
			} else {
				go s.ProcessResponse(replyA, t)
			}
		} else {
			go s.ProcessResponse(replyB, u)
			go s.ProcessResponse(replyB, u) // a duplicate
		}
		return nil
	})
	type out struct {
		res MesosCommandResponse
		err error
	}
	ca, cb := make(chan out, 1), make(chan out, 1)
	go func() { r, e := s.RunCommand(A.MakeSingleTarget(t), t); ca <- out{r, e} }()
	go func() { r, e := s.RunCommand(B.MakeSingleTarget(u), u); cb <- out{r, e} }()
	oa, ob := <-ca, <-cb
	vrt.Assert(oa.err != nil || oa.res == MesosCommandResponse(replyA), "first-command-gets-its-own-reply-or-an-error")
	vrt.Assert(ob.err != nil || ob.res == MesosCommandResponse(replyB), "second-command-gets-its-own-reply-or-an-error")
	vrt.Assert(oa.err == nil && ob.err == nil, "answered-commands-do-not-time-out")
	vrt.Assert(len(s.pending) == 0, "nothing-left-pending")
	vrt.Reach("both")
}

// ---- a multi-target command through the queue's commit -------------------------------------------------
const (
	c12OK = iota
	c12ErrReply
	c12SendFail
	c12Silent
)

//verif:entry HarnessCommitPerTarget unwind=8 timers=lazy preempt=2 reach=single,multi,none stub=github.com/AliceO2Group/Control/common/utils.TimeTrack
//verif:thorough HarnessCommitPerTarget preempt=2 paths=1500000
func HarnessCommitPerTarget() {
	names := []string{"a", "b", "c"}
	n := vrt.IntRange("targets", 0, 2+vrt.Tier())
	var targets []MesosCommandTarget
	outcome := map[MesosCommandTarget]int{}
	replies := map[MesosCommandTarget]*MesosCommandResponse_Transition{}
	for i := 0; i < n; i++ {
		tg := c12Target(names[i])
		targets = append(targets, tg)
		outcome[tg] = vrt.IntRange("outcome", c12OK, c12Silent)
	}
	cmd := c12Cmd(targets...)
	if vrt.Bool("own.response.timeout") { // e.g. CONFIGURE, which is given 120 s instead of the default 90 s
		cmd.ResponseTimeout = 120 * time.Second
	}
	var s *Servent
	s = NewServent(func(command MesosCommand, receiver MesosCommandTarget) error {
		vrt.Assert(command.GetId() == cmd.GetId(), "single-target-copy-keeps-the-command-id")
		vrt.Assert(command.GetResponseTimeout() == cmd.GetResponseTimeout(), "single-target-copy-keeps-the-response-timeout")
		switch outcome[receiver] {
		case c12SendFail:
			return errors.New("send failed")
		case c12Silent:
			return nil
		}
		r := c12Reply(command, receiver.TaskId.Value, outcome[receiver] == c12ErrReply)
		replies[receiver] = r
		go s.ProcessResponse(r, receiver)
		return nil
	})
	q := NewCommandQueue(s)
	res, err := q.commit(cmd)
	if n == 0 {
		vrt.Assert(res == nil && err == nil, "no-target-no-response-no-error")
		vrt.Reach("none")
		return
	}
	anyLost := false
	for _, tg := range targets {
		if outcome[tg] == c12SendFail || outcome[tg] == c12Silent {
			anyLost = true
		}
	}
	vrt.Assert((err != nil) == anyLost, "commit-error-iff-a-target-could-not-be-reached-or-was-silent")
	vrt.Assert(res != nil, "a-response-is-always-produced")
	per := map[MesosCommandTarget]MesosCommandResponse{}
	if n == 1 {
		vrt.Assert(!res.IsMultiResponse(), "one-target-gives-a-single-response")
		per[targets[0]] = res
		vrt.Reach("single")
	} else {
		mr, ok := res.(*MesosCommandMultiResponse)
		vrt.Assert(ok && len(mr.GetResponses()) == n, "multi-response-has-one-entry-per-target")
		per = mr.GetResponses()
		vrt.Reach("multi")
	}
	for _, tg := range targets {
		r := per[tg]
		vrt.Assert(r != nil, "every-target-has-an-answer")
		switch outcome[tg] {
		case c12OK:
			vrt.Assert(r == MesosCommandResponse(replies[tg]) && r.Err() == nil, "target-gets-its-own-reply")
		case c12ErrReply:
			vrt.Assert(r == MesosCommandResponse(replies[tg]) && r.Err() != nil, "target-gets-its-own-error-reply")
		default:
			vrt.Assert(r.Err() != nil, "unreachable-or-silent-target-is-an-error-answer")
		}
	}
}
