//go:build verif

package componentcfg

//verif:pkg configuration/componentcfg

import (
	"regexp"

	vrt "github.com/AliceO2Group/Control/zz_vrt"
)

// The documented shape of a query path: component/RUNTYPE/rolename/entry where names are made of letters,
// digits, '-' and '_' (RUNTYPE: capitals, digits, '-', '_'; the entry may contain further '/').
var (
	c20RefFull    = regexp.MustCompile(`^[a-zA-Z0-9_-]+/[A-Z0-9_-]+/[a-zA-Z0-9_-]+/[a-zA-Z0-9_/-]+$`)
	c20RefEntries = regexp.MustCompile(`^[a-zA-Z0-9_-]+/[A-Z0-9_-]+/[a-zA-Z0-9_-]+$`)
	c20RefParams  = regexp.MustCompile(`^[a-zA-Z0-9_-]+=[a-zA-Z0-9_,"\[\]-]+(&[a-zA-Z0-9_-]+=[a-zA-Z0-9_,"\[\]-]+)*$`)
)

func c20Len() int {
	if vrt.Tier() == 1 {
		return 14
	}
	return 10
}

// The three validation patterns accept exactly the documented shape (decided by z3 as equality of
// regular languages on strings up to the stated length).
//
//verif:entry HarnessQueryPathShape unwind=4 conform=12 reach=valid,invalid solverms=60000
func HarnessQueryPathShape() {
	s := vrt.String("path")
	vrt.Assume(len(s) <= c20Len())
	got := IsStringValidQueryPath(s)
	vrt.Assert(got == c20RefFull.MatchString(s), "query-path-accepted-iff-documented-shape")
	if got {
		vrt.Reach("valid")
	} else {
		vrt.Reach("invalid")
	}
}

//verif:entry HarnessEntriesPathShape unwind=4 conform=12 reach=valid,invalid solverms=60000
func HarnessEntriesPathShape() {
	s := vrt.String("path")
	vrt.Assume(len(s) <= c20Len())
	got := IsStringValidEntriesQueryPath(s)
	vrt.Assert(got == c20RefEntries.MatchString(s), "entries-path-accepted-iff-documented-shape")
	if got {
		vrt.Reach("valid")
	} else {
		vrt.Reach("invalid")
	}
}

//verif:entry HarnessQueryParametersShape unwind=4 conform=12 reach=valid,invalid solverms=60000
func HarnessQueryParametersShape() {
	s := vrt.String("params")
	vrt.Assume(len(s) <= c20Len())
	got := IsStringValidQueryParameters(s)
	vrt.Assert(got == c20RefParams.MatchString(s), "query-parameters-accepted-iff-documented-shape")
	if got {
		vrt.Reach("valid")
	} else {
		vrt.Reach("invalid")
	}
}

// Parse / print round trip on well-formed paths built from pieces (the capture-group extraction of Go's
// regexp engine runs natively, so the pieces are enumerated from a small concrete set).
var c20Pieces = []string{"a", "qc", "A-b_9", "x_", "-"}
var c20Entries = []string{"e", "a/b", "cfg-1/sub_2/x", "_", "tpc/", "/clusters", "a//b", "//"}
var c20RunTypeNames = []string{"PHYSICS", "ANY", "NULL", "CALIBRATION_FHR", "physics", "NOPE", "PHYSICS "}

//verif:entry HarnessParsePrintRoundTrip unwind=8 conform=12 reach=parsed,rejected
func HarnessParsePrintRoundTrip() {
	comp := c20Pieces[vrt.IntRange("comp", 0, len(c20Pieces)-1)]
	role := c20Pieces[vrt.IntRange("role", 0, len(c20Pieces)-1)]
	entry := c20Entries[vrt.IntRange("entry", 0, len(c20Entries)-1)]
	rt := c20RunTypeNames[vrt.IntRange("rt", 0, len(c20RunTypeNames)-1)]
	pad := []string{"", " ", "\t ", "  \n"}[vrt.IntRange("pad", 0, 3)]
	in := comp + "/" + rt + "/" + role + "/" + entry
	q, err := NewQuery(pad + in + pad)
	wellFormed := rt == "PHYSICS" || rt == "ANY" || rt == "NULL" || rt == "CALIBRATION_FHR"
	if !wellFormed {
		vrt.Assert(err != nil, "unknown-run-type-is-rejected")
		vrt.Reach("rejected")
		return
	}
	vrt.Assert(err == nil && q != nil, "well-formed-query-parses")
	vrt.Assert(q.Component == comp && q.RoleName == role && q.EntryKey == entry, "parsed-fields-are-what-the-string-spells")
	vrt.Assert(q.Raw() == in && q.Path() == in, "query-prints-back-unchanged")
	vrt.Reach("parsed")
}
