//go:build verif

package local

//verif:pkg apricot/local

import (
	"errors"

	apricotpb "github.com/AliceO2Group/Control/apricot/protos"
	"github.com/AliceO2Group/Control/configuration/cfgbackend"
	"github.com/AliceO2Group/Control/configuration/componentcfg"
	vrt "github.com/AliceO2Group/Control/zz_vrt"
)

// c20Source is a configuration backend in which exactly a chosen subset of the four candidate entries
// of a query exists (nothing else does).
type c20Source struct {
	cfgbackend.Source
	paths  [4]string
	exists [4]bool
	faulty [4]bool // the backend cannot answer the existence test for this candidate (outage, throttling)
	asked  []string
}

func (s *c20Source) Exists(p string) (bool, error) {
	s.asked = append(s.asked, p)
	for i := range s.paths {
		if p == s.paths[i] {
			if s.faulty[i] {
				return false, errors.New("Unexpected response code: 429")
			}
			return s.exists[i], nil
		}
	}
	return false, nil
}

var c20RunTypes = []apricotpb.RunType{apricotpb.RunType_PHYSICS, apricotpb.RunType_TECHNICAL, apricotpb.RunType_PEDESTAL, apricotpb.RunType_CALIBRATION_FHR, apricotpb.RunType_ANY, apricotpb.RunType_NULL}

// A component query resolves to the first existing entry among
// (run type, role), (ANY, role), (run type, any), (ANY, any) and fails when none exists.
//
//verif:entry HarnessResolveFallback unwind=8 conform=12 reach=exact,anyrt,anyrole,anyany,none
func HarnessResolveFallback() {
	comp, role, entry := vrt.String("component"), vrt.String("role"), vrt.String("entry")
	rt := c20RunTypes[vrt.IntRange("runtype", 0, len(c20RunTypes)-1)]
	rtName := apricotpb.RunType_name[int32(rt)]
	base := "o2/components/" + comp + "/"
	src := &c20Source{}
	src.paths = [4]string{
		base + rtName + "/" + role + "/" + entry,
		base + "ANY/" + role + "/" + entry,
		base + rtName + "/any/" + entry,
		base + "ANY/any/" + entry,
	}
	for i := range src.exists {
		src.exists[i] = vrt.Bool("exists")
		src.faulty[i] = vrt.Bool("backend.fault") // a candidate whose existence cannot be established counts as missing
	}
	// when the query itself already asks for ANY / any, candidates coincide: they exist together
	for i := 0; i < 4; i++ {
		for j := i + 1; j < 4; j++ {
			if src.paths[i] == src.paths[j] {
				vrt.Assume(src.exists[i] == src.exists[j] && src.faulty[i] == src.faulty[j])
			}
		}
	}
	svc := &Service{src: src}
	q := &componentcfg.Query{Component: comp, RunType: rt, RoleName: role, EntryKey: entry}
	resolved, err := svc.resolveComponentQuery(q)

	want := -1
	for i := 3; i >= 0; i-- {
		if src.exists[i] && !src.faulty[i] {
			want = i
		}
	}
	if want < 0 {
		vrt.Assert(err != nil, "no-candidate-exists-is-an-error")
		vrt.Reach("none")
		return
	}
	vrt.Assert(err == nil && resolved != nil, "an-existing-candidate-resolves")
	got := resolved.AbsoluteRaw()
	vrt.Assert(got == src.paths[want], "resolves-to-the-most-specific-existing-entry")
	vrt.Assert(src.exists[want] && !src.faulty[want], "resolved-path-exists")
	vrt.Assert(resolved.Component == comp && resolved.EntryKey == entry, "component-and-entry-never-change")
	switch want {
	case 0:
		vrt.Reach("exact")
	case 1:
		vrt.Reach("anyrt")
	case 2:
		vrt.Reach("anyrole")
	case 3:
		vrt.Reach("anyany")
	}
}
