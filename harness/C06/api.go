//go:build verif

package core

//verif:pkg core

import (
	"context"

	"github.com/AliceO2Group/Control/core/environment"
	pb "github.com/AliceO2Group/Control/core/protos"
	vrt "github.com/AliceO2Group/Control/zz_vrt"
)

var c06APIStates = []string{"STANDBY", "DEPLOYED", "CONFIGURED", "RUNNING", "ERROR"}

// One DestroyEnvironment request through the real RPC handler (with or without force, keep-tasks and
// allow-in-running-state) for an environment in any live state with two deployed tasks, the Mesos master accepting
// or refusing each KILL. When the request reports success: the environment is gone from the listing and DONE, none
// of its tasks is still owned by it, its pending call was cancelled and - unless the caller asked to keep the tasks -
// every task it owned has been asked to terminate; with keep-tasks none was. A request that reports an error after
// the environment was torn down still leaves no task owned.
//verif:entry HarnessDestroyEnvironmentRequest unwind=96 preempt=0 timers=lazy reach=destroyed,kept stub=encoding/json.Marshal,(github.com/AliceO2Group/Control/core/protos.ControlEnvironmentRequest_Optype).String,github.com/AliceO2Group/Control/common/utils.TimeTrack,github.com/AliceO2Group/Control/common/utils.TimeTrackFunction,(*github.com/AliceO2Group/Control/core.RpcServer).logMethod,(*github.com/AliceO2Group/Control/core.RpcServer).logMethodHandled nosched=github.com/AliceO2Group/Control/core/the.mu steps=8000000
func HarnessDestroyEnvironmentRequest() {
	states := c06APIStates
	if vrt.Tier() == 0 {
		states = []string{"DEPLOYED", "RUNNING", "ERROR"} // quick: one state per branch of the handler; thorough: all five
	}
	state := states[vrt.IntRange("state", 0, len(states)-1)]
	req := &pb.DestroyEnvironmentRequest{Force: vrt.Bool("force"), KeepTasks: vrt.Bool("keep.tasks")}
	if state == "RUNNING" && vrt.Tier() == 1 { // the flag is only looked at for a running environment; the stop-first path is left to the thorough tier (13 000 interleavings of the real STOP and RESET)
		req.AllowInRunningState = vrt.Bool("allow.in.running.state")
	}
	killRefused := !req.KeepTasks && vrt.Bool("master.refuses.a.kill")
	w := environment.VerifNewDestroyWorld(state, func(id string) bool { return killRefused && id == "task-t1" })
	req.Id = w.Env.Id().String()
	srv := &RpcServer{state: &globalState{environments: w.Envs, taskman: w.World.M}}
	_, err := srv.DestroyEnvironment(context.Background(), req)
	if err == nil {
		vrt.Assert(!w.Listed(), "destroyed-environment-is-gone-from-the-listing")
		vrt.Assert(w.Env.CurrentState() == "DONE", "destroyed-environment-is-done")
		vrt.Assert(w.PendingCallCancelled(), "never-awaited-call-was-cancelled")
	}
	if !w.Listed() {
		for _, t := range w.Tasks {
			vrt.Assert(!w.World.Owned(t), "no-task-is-still-owned-by-the-destroyed-environment")
		}
	}
	if !w.Listed() {
		for _, t := range w.Tasks {
			kills := w.World.Kills(t.GetTaskId())
			if req.KeepTasks {
				// (when the handler itself decides to force the teardown because of the state - RUNNING without
				// allow-in-running-state, ERROR - it also decides to kill the tasks: not asserted either way)
				if err == nil && (req.Force || state == "STANDBY" || state == "DEPLOYED" || state == "CONFIGURED" || (state == "RUNNING" && req.AllowInRunningState)) {
					vrt.Assert(kills == 0, "kept-tasks-are-not-asked-to-terminate")
				}
			} else {
				// also when the request ends with an error because the master refused a KILL
				vrt.Assert(kills >= 1, "every-task-the-environment-owned-is-asked-to-terminate")
			}
		}
	}
	if err == nil {
		if req.KeepTasks {
			vrt.Reach("kept")
		} else {
			vrt.Reach("destroyed")
		}
	}
}
