//go:build verif

package task

//verif:pkg core/task

import (
	vrt "github.com/AliceO2Group/Control/zz_vrt"
	mesos "github.com/mesos/mesos-go/api/v1/lib"
)

// A task released by a destroyed environment, or launched for a creation that failed, is unowned: it "falls to the
// next cleanup". Three rounds of either a kill naming the task or a cleanup of the unowned tasks, the master refusing
// or accepting each KILL call (all symbolic; an accepted KILL is confirmed by a TASK_KILLED update):
//   - as long as no KILL was accepted the task stays in the roster, unowned, and EVERY cleanup asks Mesos to kill it
//     again - whatever the earlier, refused attempts left behind (acknowledgement registrations, marks);
//   - a round sends at most one KILL for it; once a KILL was accepted the task is out of the roster and is left alone.
//verif:entry HarnessLeftoverFallsToNextCleanup unwind=24 preempt=0 timers=lazy reach=killed-at-once,killed-by-a-later-cleanup,still-there
func HarnessLeftoverFallsToNextCleanup() {
	leftover, _ := ftTask("leftover", "", true)
	w := ftManager(Tasks{leftover}, nil)
	const rounds = 3
	refused := make([]bool, rounds)
	byName := make([]bool, rounds)
	for i := range refused {
		refused[i] = vrt.Bool("kill.refused")
		byName[i] = vrt.Bool("kill.names.the.task")
	}
	round := 0
	w.caller.fail = func(id string) bool { return refused[round] }
	w.caller.onKill = func(id string) {
		st := mesos.TASK_KILLED
		go w.m.updateTaskStatus(&mesos.TaskStatus{TaskID: mesos.TaskID{Value: id}, State: &st})
	}
	gone, firstRound := false, -1
	for round = 0; round < rounds; round++ {
		before := w.caller.killed(leftover.taskId)
		if byName[round] {
			_, _, _ = w.m.KillTasks([]string{leftover.taskId})
		} else {
			_, _, _ = w.m.Cleanup()
		}
		sent := w.caller.killed(leftover.taskId) - before
		vrt.Assert(sent <= 1, "at-most-one-kill-per-round")
		if gone {
			vrt.Assert(sent == 0, "a-task-that-was-killed-is-left-alone")
			continue
		}
		if !byName[round] {
			vrt.Assert(sent == 1, "every-cleanup-asks-to-kill-an-unowned-task-still-in-the-roster")
		}
		if sent == 1 && !refused[round] {
			gone = true
			firstRound = round
			vrt.Assert(w.m.GetTask(leftover.taskId) == nil, "a-killed-task-leaves-the-roster")
		} else {
			vrt.Assert(w.m.GetTask(leftover.taskId) == leftover && leftover.GetParent() == nil, "a-task-whose-kill-was-refused-stays-in-the-roster-unowned")
		}
	}
	switch {
	case firstRound == 0:
		vrt.Reach("killed-at-once")
	case firstRound > 0 && !byName[firstRound]:
		vrt.Reach("killed-by-a-later-cleanup")
	case !gone:
		vrt.Reach("still-there")
	}
}
