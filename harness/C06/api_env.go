//go:build verif

package environment

//verif:pkg core/environment

import (
	"github.com/AliceO2Group/Control/common/event"
	"github.com/AliceO2Group/Control/core/controlcommands"
	"github.com/AliceO2Group/Control/core/task"
	"github.com/AliceO2Group/Control/core/workflow"
	"github.com/AliceO2Group/Control/core/workflow/callable"
)

// VerifDestroyWorld is the exported face of the C06 set-up for the API-level harness in package core: a real
// task manager (roster, command queue, servent; executors acknowledge every command, the Mesos master confirms every
// KILL it accepts), a real environment manager holding one environment in the given state whose workflow has two
// ordinary tasks (one critical), and one integration call that was started and is never awaited.
type VerifDestroyWorld struct {
	Envs    *Manager
	Env     *Environment
	World   *task.VerifWorld
	Tasks   []*task.Task
	pending *callable.Call
}

func VerifNewDestroyWorld(state string, killFails func(taskId string) bool) *VerifDestroyWorld {
	events := make(chan event.Event, 16)
	var world *task.VerifWorld
	world = task.VerifNewWorld([]string{"t1", "t2"}, events, func(cmd controlcommands.MesosCommand, rcv controlcommands.MesosCommandTarget) error {
		world.Reply(cmd, rcv, nil)
		return nil
	})
	world.SetKillBehaviour(killFails)
	rec := &fenvRec{}
	started := make(chan struct{})
	rec.onCall = func(c *callable.Call) error {
		close(started)
		select {}
	}
	env := fenvNew(&fenvConf{}, rec, state, nil)
	callRole := workflow.NewCallRole("c", task.Traits{Trigger: "before_NEVER+0", Await: "before_NEVER+0", Timeout: "5s"}, "verif.Hook()", "")
	env.workflow = workflow.NewAggregatorRole("root", []workflow.Role{
		workflow.VerifTaskRole("t1", true, world.Tasks[0]),
		workflow.VerifTaskRole("t2", false, world.Tasks[1]),
		callRole,
	})
	workflow.LinkChildrenToParents(env.workflow)
	workflow.VerifAttach(env.workflow, env.wfAdapter)
	envs := NewEnvManager(world.M, events)
	envs.m[env.id] = env
	envs.pendingStateChangeCh[env.id] = env.stateChangedCh
	pending := callable.NewCall("verif.Hook()", "", callRole.(callable.ParentRole))
	pending.Traits.Await = "before_NEVER"
	env.callsPendingAwait["before_NEVER"] = callable.CallsMap{0: callable.Calls{pending}}
	pending.Start()
	<-started
	return &VerifDestroyWorld{Envs: envs, Env: env, World: world, Tasks: world.Tasks, pending: pending}
}

// Listed tells whether the environment still appears in the manager's listing.
func (w *VerifDestroyWorld) Listed() bool {
	_, err := w.Envs.Environment(w.Env.Id())
	return err == nil
}

// PendingCallCancelled tells whether the never-awaited call was cancelled.
func (w *VerifDestroyWorld) PendingCallCancelled() bool { return !w.pending.Cancel() }
