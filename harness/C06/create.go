//go:build verif

package environment

//verif:pkg core/environment
//verif:hook core/environment Manager.loadWorkflow
//verif:hook core/environment parseWorkflowPublicInfo
//verif:hook configuration/template Fields.Execute

import (
	"errors"
	"strings"
	texttemplate "text/template"

	"github.com/AliceO2Group/Control/common/event"
	"github.com/AliceO2Group/Control/common/utils/uid"
	"github.com/AliceO2Group/Control/configuration"
	"github.com/AliceO2Group/Control/configuration/template"
	"github.com/AliceO2Group/Control/core/controlcommands"
	"github.com/AliceO2Group/Control/core/repos"
	"github.com/AliceO2Group/Control/core/task"
	"github.com/AliceO2Group/Control/core/the"
	"github.com/AliceO2Group/Control/core/workflow"
	"github.com/AliceO2Group/Control/core/workflow/callable"
	vrt "github.com/AliceO2Group/Control/zz_vrt"
)

type c06CreateConf struct{ configuration.Service }

func (c06CreateConf) GetDefaults() map[string]string { return map[string]string{} }
func (c06CreateConf) GetVars() map[string]string     { return map[string]string{} }
func (c06CreateConf) GetDetectorsForHosts(hosts []string) ([]string, error) {
	return []string{"ITS"}, nil
}

func c06ToJSON(slice []string) (string, error) {
	var q []string
	for _, s := range slice {
		q = append(q, "\""+s+"\"")
	}
	return "[" + strings.Join(q, ",") + "]", nil
}

func c06FromJSON(payload string) ([]string, error) {
	out := make([]string, 0)
	if len(payload) < 2 || payload[0] != '[' {
		return out, errors.New("not a JSON list")
	}
	inner := payload[1 : len(payload)-1]
	if inner == "" {
		return out, nil
	}
	for _, p := range strings.Split(inner, ",") {
		out = append(out, strings.Trim(p, "\""))
	}
	return out, nil
}

// The creation of an environment (CreateEnvironment, real code; repository access and workflow loading are the
// harness) whose workflow has two tasks to launch (the second critical or not) and one integration call, failing at
// any stage: the workflow cannot be loaded; a task cannot be placed; a task is launched but another critical one is
// not; a task refuses CONFIGURE. Whenever the request returns an error nothing is left behind: the environment is not
// listed, holds no detector, none of the tasks launched for it is still owned by it and every one of them has been
// asked to terminate. When it succeeds the environment is listed, CONFIGURED, and owns its tasks.
//
//verif:entry HarnessCreationFailures unwind=96 preempt=0 sleepbound=0 timers=lazy reach=created,load-failed,deploy-failed,configure-failed stub=github.com/AliceO2Group/Control/common/utils.TimeTrack,encoding/json.Unmarshal,encoding/json.Marshal nosched=github.com/AliceO2Group/Control/core/the.mu replace=github.com/AliceO2Group/Control/core/environment.JSONSliceToSlice=>c06FromJSON,github.com/AliceO2Group/Control/core/environment.SliceToJSONSlice=>c06ToJSON steps=20000000
func HarnessCreationFailures() {
	// scenarios (quick: 0..4 and 7; thorough: all)
	//   0 the workflow cannot be loaded            1 everything works
	//   2 a task refuses CONFIGURE                 3 the second, critical task cannot be placed anywhere
	//   4 the second, critical task is not placed in any round (three attempts, the first task launched each time)
	//   5 the first task cannot be placed          6 the second task is not critical and cannot be placed
	//   7 both tasks are launched but have not reported TASK_RUNNING when DEPLOY gives up waiting (slow start)
	scenario := vrt.IntRange("scenario", 0, 7)
	if vrt.Tier() != 1 {
		vrt.Assume(scenario <= 4 || scenario == 7)
	}
	loadFails := scenario == 0
	verdicts := map[string]int{"k1": task.VerifLaunched, "k2": task.VerifLaunched}
	secondCritical := scenario != 6
	configureRefusedBy := ""
	switch scenario {
	case 2:
		configureRefusedBy = "k1"
	case 3, 6:
		verdicts["k2"] = task.VerifImpossible
	case 4:
		verdicts["k2"] = task.VerifNotThisRound
	case 5:
		verdicts["k1"] = task.VerifImpossible
	}
	template.VerifHook_Fields_Execute = func(f template.Fields, confSvc template.ConfigurationService, parentPath string, varStack map[string]string, objStack map[string]interface{}, baseConfigStack map[string]string, cache map[string]texttemplate.Template, repo repos.IRepo) error {
		return nil
	}
	the.VerifHook_ConfSvc = func() configuration.Service { return c06CreateConf{} }
	callable.VerifHook_Call_Call = func(c *callable.Call) error { return nil }
	VerifHook_parseWorkflowPublicInfo = func(string) (WorkflowPublicInfo, error) { return WorkflowPublicInfo{Name: "wf"}, nil }
	VerifHook_Manager_loadWorkflow = func(envs *Manager, path string, parent workflow.Updatable, userVars map[string]string, base map[string]string) (workflow.Role, error) {
		if loadFails {
			return nil, errors.New("template error")
		}
		root := workflow.NewAggregatorRole("root", []workflow.Role{
			workflow.VerifLoadableTaskRole("t1", "k1", true),
			workflow.VerifLoadableTaskRole("t2", "k2", secondCritical),
			workflow.NewCallRole("c", task.Traits{Trigger: "before_NEVER", Await: "before_NEVER", Timeout: "1s"}, "verif.Hook()", ""),
		})
		workflow.LinkChildrenToParents(root)
		workflow.VerifAttach(root, parent.(*workflow.ParentAdapter))
		return root, nil
	}
	events := make(chan event.Event, 16)
	var world *task.VerifWorld
	world = task.VerifNewWorld(nil, events, func(cmd controlcommands.MesosCommand, rcv controlcommands.MesosCommandTarget) error {
		var err error
		if configureRefusedBy != "" && cmd.GetName() == "MesosCommand_Transition" {
			for _, t := range world.Launched() {
				if t.GetTaskId() == rcv.TaskId.Value && t.GetClassName() == configureRefusedBy {
					err = errors.New("task did not reach the expected state")
				}
			}
		}
		world.Reply(cmd, rcv, err)
		return nil
	})
	world.RegisterClass("k1")
	world.RegisterClass("k2")
	world.SetKillBehaviour(nil)
	world.ServeDeployments(func(class string) int { return verdicts[class] }, scenario <= 2)
	envs := NewEnvManager(world.M, events)
	id := uid.ID("2envAAAAAAA")

	// (a short deployment timeout keeps the native runs of scenario 7 short; under the interpreter it is a timer like any other)
	_, err := envs.CreateEnvironment("wf", map[string]string{"deploy_timeout": "2s"}, false, id, false)

	missing := func(c string) bool { return verdicts[c] != task.VerifLaunched }
	wantOK := !loadFails && !missing("k1") && !(secondCritical && missing("k2")) && configureRefusedBy == "" && scenario != 7
	if scenario != 6 { // (a non-critical task that cannot be launched: see the C02 known finding on DEPLOY; not asserted here)
		vrt.Assert((err == nil) == wantOK, "creation-succeeds-iff-every-stage-did")
	}
	_, lerr := envs.Environment(id)
	if err != nil {
		vrt.Assert(lerr != nil, "failed-creation-leaves-no-environment-listed")
		vrt.Assert(len(envs.GetActiveDetectors()) == 0, "failed-creation-frees-its-detectors")
		for _, t := range world.Launched() {
			vrt.Assert(!world.Owned(t), "no-task-is-still-owned-by-the-failed-environment")
			// asked to terminate, or still in the roster, unowned, where the next cleanup finds it
			vrt.Assert(world.Kills(t.GetTaskId()) >= 1 || world.InRoster(t), "every-task-launched-for-the-failed-environment-is-asked-to-terminate-or-left-to-the-next-cleanup")
		}
		switch {
		case loadFails:
			vrt.Reach("load-failed")
		case configureRefusedBy != "":
			vrt.Reach("configure-failed")
		default:
			vrt.Reach("deploy-failed")
		}
		return
	}
	vrt.Assert(lerr == nil, "created-environment-is-listed")
	env, _ := envs.Environment(id)
	vrt.Assert(env.CurrentState() == "CONFIGURED", "created-environment-is-configured")
	vrt.Reach("created")
}
