//go:build verif

package environment

//verif:pkg core/environment

import (
	"errors"

	"github.com/AliceO2Group/Control/common/event"
	"github.com/AliceO2Group/Control/core/controlcommands"
	"github.com/AliceO2Group/Control/core/task"
	"github.com/AliceO2Group/Control/core/workflow"
	"github.com/AliceO2Group/Control/core/workflow/callable"
	vrt "github.com/AliceO2Group/Control/zz_vrt"
)

var c06States = []string{"STANDBY", "DEPLOYED", "CONFIGURED", "RUNNING", "ERROR", "DONE"}
var c06Triggers = []string{"DESTROY-5", "DESTROY+0", "DESTROY+7", "after_DESTROY+0", "after_DESTROY+7"}

// Destroy of an environment in any state, forced or not, whose workflow has two ordinary tasks, 0..2 hook
// tasks on DESTROY / after_DESTROY at arbitrary weights and one integration call that is never awaited.
// When TeardownEnvironment returns nil: the environment is gone from the listing and DONE, none of its tasks
// is still owned by it, every DESTROY hook task was triggered, only after the ordinary tasks had been
// released, and was then released too, and the pending call was cancelled. When the request cannot be
// honoured (state not allowed without force, already DONE) it returns an error and changes nothing.
//verif:entry HarnessTeardown unwind=96 preempt=0 timers=lazy reach=destroyed,refused stub=github.com/AliceO2Group/Control/common/utils.TimeTrack nosched=github.com/AliceO2Group/Control/core/the.mu steps=8000000
//verif:thorough HarnessTeardown preempt=1 paths=600000
func HarnessTeardown() {
	c06Teardown(vrt.IntRange("hooks", 0, 2-vrt.Tier()), false) // thorough explores pre-emptions with at most one hook
}

// The same destroy with no hook task but, optionally, a call hook fired by the teardown itself (trigger
// leave_<current state>) whose await point is never reached, and a task whose agent was reported lost
// before (no longer locked, still attached to its role).
//verif:entry HarnessTeardownLeftovers unwind=96 preempt=0 timers=lazy reach=destroyed,refused stub=github.com/AliceO2Group/Control/common/utils.TimeTrack nosched=github.com/AliceO2Group/Control/core/the.mu steps=8000000
func HarnessTeardownLeftovers() {
	c06Teardown(0, true)
}

func c06Teardown(nhooks int, leftovers bool) {
	state := c06States[vrt.IntRange("state", 0, len(c06States)-1)]
	force := vrt.Bool("force")
	names := []string{"t1", "t2", "h1", "h2"}[:2+nhooks]
	events := make(chan event.Event, 16)
	var world *task.VerifWorld
	var plain, hookTasks []*task.Task
	triggeredWhilePlainOwned := false
	triggered := map[string]int{}
	// the trigger command of the first hook task may be undeliverable: the teardown goes on all the same
	triggerFails := nhooks > 0 && !leftovers && vrt.Bool("first.hook.trigger.cannot.be.sent")
	world = task.VerifNewWorld(names, events, func(cmd controlcommands.MesosCommand, rcv controlcommands.MesosCommandTarget) error {
		if cmd.GetName() == "MesosCommand_TriggerHook" {
			if triggerFails && len(hookTasks) > 0 && rcv.TaskId.Value == hookTasks[0].GetTaskId() {
				return errors.New("cannot send the trigger command to " + rcv.TaskId.Value)
			}
			triggered[rcv.TaskId.Value]++
			for _, p := range plain {
				if world.Owned(p) {
					triggeredWhilePlainOwned = true
				}
			}
		}
		world.Reply(cmd, rcv, nil)
		return nil
	})
	plain, hookTasks = world.Tasks[:2], world.Tasks[2:]
	rec := &fenvRec{}
	callStarted := make(chan struct{})
	rec.onCall = func(c *callable.Call) error {
		if c.GetName() != "root.c" {
			return nil // the leave_<state> hook below: returns at once and then waits to be awaited or cancelled
		}
		close(callStarted)
		select {} // an integration call that never returns on its own
	}
	env := fenvNew(&fenvConf{}, rec, state, nil)
	roles := []workflow.Role{
		workflow.VerifTaskRole("t1", true, plain[0]),
		workflow.VerifTaskRole("t2", false, plain[1]),
	}
	hookDead := map[string]bool{}
	for i, h := range hookTasks {
		r := workflow.VerifHookTaskRole(names[2+i], c06Triggers[vrt.IntRange("trigger", 0, len(c06Triggers)-1)], vrt.Bool("hook.critical"), h)
		if vrt.Bool("hook.dead") { // the hook task already terminated (its role is INACTIVE): not triggered, still released
			workflow.VerifSetStatus(r, task.INACTIVE)
			hookDead[h.GetTaskId()] = true
		}
		roles = append(roles, r)
	}
	if leftovers && vrt.Bool("leave.hook") { // a call fired by the teardown itself (leaving the current state) and awaited at a point never reached
		roles = append(roles, workflow.NewCallRole("lv", task.Traits{Trigger: "leave_" + state, Await: "before_NEVER+0", Timeout: "5s"}, "verif.Hook()", ""))
	}
	if leftovers && vrt.Bool("t2.agent.lost") { // the agent of t2 was reported lost earlier (HandleAgentFailed): t2 is no longer locked but still hangs under its role
		world.AgentLost(plain[1])
	}
	callRole := workflow.NewCallRole("c", task.Traits{Trigger: "before_NEVER+0", Await: "before_NEVER+0", Timeout: "5s"}, "verif.Hook()", "")
	roles = append(roles, callRole)
	env.workflow = workflow.NewAggregatorRole("root", roles)
	workflow.LinkChildrenToParents(env.workflow)
	workflow.VerifAttach(env.workflow, env.wfAdapter)
	envs := NewEnvManager(world.M, events)
	envs.m[env.id] = env
	envs.pendingStateChangeCh[env.id] = env.stateChangedCh
	// a call that was started and whose await point is never reached
	pending := callable.NewCall("verif.Hook()", "", callRole.(callable.ParentRole))
	pending.Traits.Await = "before_NEVER"
	env.callsPendingAwait["before_NEVER"] = callable.CallsMap{0: callable.Calls{pending}}
	pending.Start()
	<-callStarted

	err := envs.TeardownEnvironment(env.id, force)

	allowed := state != "DONE" && (force || state == "STANDBY" || state == "DEPLOYED")
	_, listed := envs.m[env.id]
	if !allowed {
		vrt.Assert(err != nil, "destroy-that-cannot-be-honoured-returns-an-error")
		vrt.Assert(listed && env.CurrentState() == state, "refused-destroy-changes-nothing")
		for _, t := range world.Tasks {
			vrt.Assert(world.Owned(t), "refused-destroy-releases-nothing")
		}
		vrt.Reach("refused")
		return
	}
	if !triggerFails {
		vrt.Assert(err == nil, "allowed-destroy-succeeds-when-every-release-succeeds")
	}
	vrt.Assert(!listed, "destroyed-environment-is-gone-from-the-listing")
	vrt.Assert(env.CurrentState() == "DONE", "destroyed-environment-is-done")
	for _, t := range world.Tasks {
		vrt.Assert(!world.Owned(t), "no-task-is-still-owned-by-the-destroyed-environment")
	}
	for _, h := range hookTasks {
		if hookDead[h.GetTaskId()] {
			vrt.Assert(triggered[h.GetTaskId()] == 0, "dead-hook-task-is-not-triggered")
		} else if triggerFails {
			vrt.Assert(triggered[h.GetTaskId()] <= 1, "no-destroy-hook-task-is-triggered-twice")
		} else {
			vrt.Assert(triggered[h.GetTaskId()] == 1, "every-destroy-hook-task-is-triggered-exactly-once")
		}
	}
	for _, p := range plain {
		vrt.Assert(triggered[p.GetTaskId()] == 0, "ordinary-tasks-are-not-triggered-as-hooks")
	}
	vrt.Assert(!triggeredWhilePlainOwned, "destroy-hooks-run-only-after-the-other-tasks-were-released")
	vrt.Assert(pending.Cancel() == false, "never-awaited-call-was-cancelled-by-teardown")
	for _, byWeight := range env.callsPendingAwait {
		for _, calls := range byWeight {
			for _, c := range calls {
				vrt.Assert(c == nil || c.Cancel() == false, "no-call-of-a-destroyed-environment-is-left-waiting")
			}
		}
	}
	vrt.Reach("destroyed")
	_ = errors.New
}
