//go:build verif

package the

//verif:pkg core/the

import (
	"github.com/AliceO2Group/Control/common/event"
	"github.com/AliceO2Group/Control/common/event/topic"
	vrt "github.com/AliceO2Group/Control/zz_vrt"
	"github.com/spf13/viper"
)

// Two producers asking for the writer of a topic nobody has used yet, at the same time, under every interleaving:
// both get the same writer and it is the one registered for the topic - so that everything either of them
// publishes goes through the writer that ClearEventWriters flushes and closes at shutdown.
//verif:entry HarnessOneWriterPerTopic unwind=16 preempt=3 reach=same
func HarnessOneWriterPerTopic() {
	viper.Set("enableKafka", true)
	clear(writers)
	t := topic.Topic("verif.topic")
	got := make(chan event.Writer, 2)
	for i := 0; i < 2; i++ {
		go func() { got <- EventWriterWithTopic(t) }()
	}
	w1, w2 := <-got, <-got
	vrt.Assert(w1 != nil && w1 == w2, "concurrent-producers-of-a-new-topic-share-one-writer")
	mu.Lock()
	n, reg := len(writers), writers[t]
	mu.Unlock()
	vrt.Assert(n == 1 && reg == w1, "the-shared-writer-is-the-registered-one")
	vrt.Reach("same")
}
