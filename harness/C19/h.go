//go:build verif

package event

//verif:pkg common/event

import (
	"sync"
	"time"

	"github.com/AliceO2Group/Control/common/monitoring"
	pb "github.com/AliceO2Group/Control/common/protos"
	vrt "github.com/AliceO2Group/Control/zz_vrt"
	"github.com/segmentio/kafka-go"
	"google.golang.org/protobuf/proto"
)

// C19Marshal stands for proto.Marshal under the interpreter: the payload is the event's tag (its Message
// field), which is all the harness needs to recognise a message at the broker.
func C19Marshal(m proto.Message) ([]byte, error) {
	ev := m.(*pb.Event)
	if e := ev.GetEnvironmentEvent(); e != nil {
		return []byte(e.Message), nil
	}
	if e := ev.GetTaskEvent(); e != nil {
		return []byte(e.Path), nil
	}
	if e := ev.GetRoleEvent(); e != nil {
		return []byte(e.Name), nil
	}
	return []byte("?"), nil
}

func c19Tag(m kafka.Message) string {
	if vrt.Symbolic() {
		return string(m.Value)
	}
	ev := &pb.Event{}
	if err := proto.Unmarshal(m.Value, ev); err != nil {
		return "!" + err.Error()
	}
	b, _ := C19Marshal(ev)
	return string(b)
}

type c19Broker struct {
	mu      sync.Mutex
	written []string
	keys    []string
	batches []int
	gate    chan struct{} // when non-nil the broker does not return from a write until the gate is closed
}

func c19Writer(b *c19Broker) *KafkaWriter { return c19WriterCap(b, 100) }

func c19WriterCap(b *c19Broker, capacity int) *KafkaWriter {
	w := &KafkaWriter{}
	w.toBatchMessagesChan = make(chan kafka.Message, capacity)
	w.messageBuffer = NewFifoBuffer[kafka.Message]()
	w.Writer = &kafka.Writer{}
	w.Topic = "verif"
	w.batchingLoopDoneCh = make(chan struct{}, 1)
	w.writeFunction = func(messages []kafka.Message, _ *monitoring.Metric) {
		if b.gate != nil {
			<-b.gate
		}
		vrt.Yield() // broker latency: anything may happen while a write is in progress
		b.mu.Lock()
		b.batches = append(b.batches, len(messages))
		for _, m := range messages {
			b.written = append(b.written, c19Tag(m))
			b.keys = append(b.keys, string(m.Key))
		}
		b.mu.Unlock()
	}
	go w.writingLoop()
	go w.batchingLoop()
	return w
}

const c19Opts = ""

// Producers publish, then the writer is closed. After Close returns every accepted event has been handed
// to the broker exactly once, in each producer's order, in batches of 1..100, with the environment id as key.
//verif:entry HarnessPublishThenClose unwind=10 preempt=2 reach=closed replace=google.golang.org/protobuf/proto.Marshal=>C19Marshal stub=(*github.com/segmentio/kafka-go.Writer).Close
//verif:thorough HarnessPublishThenClose preempt=3 unwind=32
func HarnessPublishThenClose() {
	b := &c19Broker{}
	w := c19Writer(b)
	nprod := 1 + vrt.Tier()
	per := 2
	var wg sync.WaitGroup
	for p := 0; p < nprod; p++ {
		wg.Add(1)
		go func(p int) {
			for i := 0; i < per; i++ {
				w.WriteEvent(&pb.Ev_EnvironmentEvent{EnvironmentId: "env" + string(rune('A'+p)), Message: string(rune('A'+p)) + string(rune('0'+i))})
			}
			wg.Done()
		}(p)
	}
	wg.Wait() // everything below was accepted before shutdown
	w.Close()
	vrt.Reach("closed")
	b.mu.Lock()
	defer b.mu.Unlock()
	for p := 0; p < nprod; p++ {
		last := -1
		for i := 0; i < per; i++ {
			tag := string(rune('A'+p)) + string(rune('0'+i))
			n, pos := 0, -1
			for j, t := range b.written {
				if t == tag {
					n++
					pos = j
				}
			}
			vrt.Assert(n >= 1, "event-accepted-before-shutdown-reaches-the-broker")
			vrt.Assert(n <= 1, "event-reaches-the-broker-at-most-once")
			vrt.Assert(pos > last, "per-producer-order-is-preserved")
			last = pos
			vrt.Assert(b.keys[pos] == "env"+string(rune('A'+p)), "partition-key-is-the-environment-id")
		}
	}
	vrt.Assert(len(b.written) == nprod*per, "nothing-else-is-written")
	for _, n := range b.batches {
		vrt.Assert(n >= 1 && n <= 100, "batch-size-bounded")
	}
	vrt.Assert(w.messageBuffer.Length() == 0 && len(w.toBatchMessagesChan) == 0, "nothing-left-behind-at-shutdown")
}

// Producers never wait for the broker: with the broker stuck in a write, publishing still returns.
//verif:entry HarnessProducersDoNotWaitForBroker unwind=10 preempt=2 reach=published replace=google.golang.org/protobuf/proto.Marshal=>C19Marshal stub=(*github.com/segmentio/kafka-go.Writer).Close
func HarnessProducersDoNotWaitForBroker() {
	b := &c19Broker{gate: make(chan struct{})}
	w := c19Writer(b)
	for i := 0; i < 3; i++ {
		w.WriteEvent(&pb.Ev_TaskEvent{Taskid: "task-1", EnvironmentId: "envA", Path: "T" + string(rune('0'+i))})
	}
	vrt.Reach("published") // reached although no write has completed (a deadlock here would be reported)
	b.mu.Lock()
	vrt.Assert(len(b.written) == 0, "broker-has-not-completed-any-write-yet")
	b.mu.Unlock()
	close(b.gate)
	w.Close()
	b.mu.Lock()
	vrt.Assert(len(b.written) == 3 && b.written[0] == "T0" && b.written[1] == "T1" && b.written[2] == "T2", "stuck-broker-delays-but-loses-nothing")
	for _, k := range b.keys {
		vrt.Assert(k == "task-1", "task-events-are-keyed-by-task-id")
	}
	b.mu.Unlock()
}

// A burst larger than the hand-over channel: the producer may have to wait for the batching loop (never for the
// broker), and nothing of the burst is lost.
//verif:entry HarnessBurstFillsTheChannel unwind=10 preempt=2 reach=closed replace=google.golang.org/protobuf/proto.Marshal=>C19Marshal stub=(*github.com/segmentio/kafka-go.Writer).Close
func HarnessBurstFillsTheChannel() {
	b := &c19Broker{}
	w := c19WriterCap(b, 1)
	for i := 0; i < 3; i++ {
		w.WriteEvent(&pb.Ev_RoleEvent{EnvironmentId: "envA", Name: "R" + string(rune('0'+i))})
	}
	w.Close()
	vrt.Reach("closed")
	b.mu.Lock()
	vrt.Assert(len(b.written) == 3 && b.written[0] == "R0" && b.written[1] == "R1" && b.written[2] == "R2", "burst-larger-than-the-channel-is-delivered-completely-and-in-order")
	b.mu.Unlock()
}

// PopMultiple hands out at most the requested number of messages, oldest first.
//verif:entry HarnessPopMultipleBound unwind=200 reach=popped
func HarnessPopMultipleBound() {
	f := NewFifoBuffer[int]()
	n := vrt.IntRange("n", 1, 6)
	if vrt.Bool("long") {
		n = 150 // more than one full batch
	}
	for i := 0; i < n; i++ {
		f.Push(i)
	}
	k := uint(vrt.Concrete(vrt.IntRange("k", 1, 8), 1, 8))
	if n == 150 {
		k = 100
	}
	got := f.PopMultiple(k)
	want := n
	if int(k) < n {
		want = int(k)
	}
	vrt.Assert(len(got) == want, "pop-multiple-returns-min-of-requested-and-available")
	for i, v := range got {
		vrt.Assert(v == i, "pop-multiple-is-fifo")
	}
	vrt.Assert(f.Length() == n-want, "pop-multiple-removes-what-it-returns")
	vrt.Reach("popped")
}

// Producer side (Push) and consumer side (PopMultiple / Length) of the hand-over buffer exclude each other: while
// the harness holds the lock the consumer side works under (the buffer as KafkaWriter holds it, i.e. a copy of what
// NewFifoBuffer returns), a Push cannot complete; it completes once the lock is released, and the element is there.
//verif:entry HarnessFifoSidesExcludeEachOther unwind=16 preempt=2 reach=excluded
func HarnessFifoSidesExcludeEachOther() {
	w := &KafkaWriter{messageBuffer: NewFifoBuffer[kafka.Message]()}
	buf := &w.messageBuffer
	pushed := false
	done := make(chan struct{})
	buf.cond.L.Lock()
	go func() {
		buf.Push(kafka.Message{Key: []byte("k")})
		pushed = true
		close(done)
	}()
	vrt.WaitQuiescent(20 * time.Millisecond)
	vrt.Assert(!pushed, "push-does-not-complete-while-the-consumer-side-holds-the-buffer")
	buf.cond.L.Unlock()
	<-done
	vrt.Assert(buf.Length() == 1, "pushed-element-is-in-the-buffer")
	vrt.Reach("excluded")
}

// Shutdown with a backlog larger than one batch (230 messages waiting in the hand-over buffer when Close is called):
// everything is handed to the broker, in order, exactly once, and no batch - the ones written while shutting down
// included - exceeds 100 messages.
//verif:entry HarnessShutdownFlushInBatches unwind=400 preempt=0 reach=flushed steps=8000000
func HarnessShutdownFlushInBatches() {
	b := &c19Broker{}
	w := &KafkaWriter{}
	w.toBatchMessagesChan = make(chan kafka.Message, 4)
	w.messageBuffer = NewFifoBuffer[kafka.Message]()
	w.Writer = &kafka.Writer{}
	w.Topic = "verif"
	w.batchingLoopDoneCh = make(chan struct{}, 1)
	w.writeFunction = func(messages []kafka.Message, _ *monitoring.Metric) {
		b.mu.Lock()
		b.batches = append(b.batches, len(messages))
		for _, m := range messages {
			b.written = append(b.written, string(m.Key))
		}
		b.mu.Unlock()
	}
	const backlog = 230
	for i := 0; i < backlog; i++ {
		w.messageBuffer.Push(kafka.Message{Key: []byte{byte('0' + i/100), byte('0' + i/10%10), byte('0' + i%10)}})
	}
	go w.writingLoop()
	go w.batchingLoop()
	w.Close()
	b.mu.Lock()
	defer b.mu.Unlock()
	vrt.Assert(len(b.written) == backlog, "event-accepted-before-shutdown-reaches-the-broker")
	for i, k := range b.written {
		vrt.Assert(k == string([]byte{byte('0' + i/100), byte('0' + i/10%10), byte('0' + i%10)}), "events-reach-the-broker-in-order-exactly-once")
	}
	for _, n := range b.batches {
		vrt.Assert(n >= 1 && n <= 100, "batches-hold-1-to-100-messages")
	}
	vrt.Reach("flushed")
}

// A long backlog drained in batches while more arrives (1500 queued, 1100 popped in batches of 100, 100 more queued,
// then drained): the buffer hands out every value exactly once, oldest first, whatever it does internally to reclaim
// the room of what was popped.
//verif:entry HarnessFifoLongBacklog unwind=2000 reach=drained steps=20000000
func HarnessFifoLongBacklog() {
	f := NewFifoBuffer[int]()
	next := 0
	for i := 0; i < 1500; i++ {
		f.Push(next)
		next++
	}
	expect := 0
	take := func(k uint) {
		for _, v := range f.PopMultiple(k) {
			vrt.Assert(v == expect, "pop-multiple-is-fifo")
			expect++
		}
	}
	for i := 0; i < 11; i++ {
		take(100)
	}
	for i := 0; i < 100; i++ {
		f.Push(next)
		next++
	}
	for f.Length() > 0 {
		take(100)
	}
	vrt.Assert(expect == next && next == 1600, "every-value-is-handed-out-exactly-once")
	vrt.Reach("drained")
}
