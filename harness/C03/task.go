//go:build verif

package task

//verif:pkg core/task

import (
	"time"

	"github.com/AliceO2Group/Control/common/event"
	"github.com/AliceO2Group/Control/common/utils/uid"
	"github.com/AliceO2Group/Control/core/task/sm"
	vrt "github.com/AliceO2Group/Control/zz_vrt"
	mesos "github.com/mesos/mesos-go/api/v1/lib"
)

// What the task manager makes of the ways a task can fail on its own:
//   - a terminal Mesos status (failed, lost, killed, error) of a task owned by an environment puts the task in
//     ERROR (its role is told), of an unowned one changes nothing; finished means DONE;
//   - loss of the executor or of the agent puts every task of that executor/agent in ERROR and INACTIVE.
//
//verif:entry HarnessTaskFailureKinds unwind=24 preempt=1 reach=status,executor,agent stub=github.com/AliceO2Group/Control/common/utils.TimeTrack
func HarnessTaskFailureKinds() {
	env := uid.ID("2oDvieFrVTi")
	owned := vrt.Bool("owned")
	owner := uid.ID("")
	if owned {
		owner = env
	}
	victim, vrole := ftTask("victim", owner, vrt.Bool("critical"))
	if !owned {
		victim.parent = nil
	}
	bystander, brole := ftTask("bystander", env, true)
	w := ftManager(Tasks{victim, bystander}, nil)
	execId, agentId := victim.executorId, victim.agentId
	if vrt.Bool("running.update.first") {
		// an earlier TASK_RUNNING update for the victim, as sent by the executor (both ids) or by the master in
		// answer to a reconciliation (agent id only, or none): it must not change what a later failure means
		run := mesos.TASK_RUNNING
		st := mesos.TaskStatus{TaskID: mesos.TaskID{Value: victim.taskId}, State: &run}
		if vrt.Bool("running.update.has.agent") {
			st.AgentID = &mesos.AgentID{Value: agentId}
		}
		if vrt.Bool("running.update.has.executor") {
			st.ExecutorID = &mesos.ExecutorID{Value: execId}
		}
		w.m.handleMessage(NewTaskStatusMessage(st))
		vrt.WaitQuiescent(50 * time.Millisecond)
	}
	switch vrt.IntRange("kind", 0, 2) {
	case 0:
		states := []mesos.TaskState{mesos.TASK_FAILED, mesos.TASK_LOST, mesos.TASK_KILLED, mesos.TASK_ERROR, mesos.TASK_FINISHED, mesos.TASK_RUNNING, mesos.TASK_STARTING}
		st := states[vrt.IntRange("mesos.state", 0, len(states)-1)]
		status := mesos.TaskStatus{TaskID: mesos.TaskID{Value: victim.taskId}, State: &st}
		if vrt.Bool("learnt.through.reconciliation") { // the master's answer to a reconciliation after a reconnection
			r := mesos.REASON_RECONCILIATION
			status.Reason = &r
		}
		w.m.handleMessage(NewTaskStatusMessage(status))
		vrt.WaitQuiescent(50 * time.Millisecond)
		last, told := vrole.lastState()
		switch st {
		case mesos.TASK_FAILED, mesos.TASK_LOST, mesos.TASK_KILLED, mesos.TASK_ERROR:
			if owned {
				vrt.Assert(victim.state == sm.ERROR && told && last == sm.ERROR, "terminal-status-of-an-owned-task-is-an-error-state")
			} else {
				vrt.Assert(victim.state == sm.STANDBY, "terminal-status-of-an-unowned-task-changes-no-state")
			}
		case mesos.TASK_FINISHED:
			vrt.Assert(victim.state == sm.DONE, "finished-task-is-done")
		default:
			vrt.Assert(victim.state == sm.STANDBY, "non-terminal-status-changes-no-state")
		}
		vrt.Reach("status")
	case 1:
		affected := w.m.HandleExecutorFailed(&event.ExecutorFailedEvent{ExecutorId: mesos.ExecutorID{Value: execId}})
		vrt.WaitQuiescent(50 * time.Millisecond)
		vrt.Assert(victim.state == sm.ERROR && victim.status == INACTIVE, "executor-loss-puts-its-tasks-in-error-and-inactive")
		if owned {
			_, hit := affected[env]
			last, told := vrole.lastState()
			vrt.Assert(hit && told && last == sm.ERROR, "executor-loss-is-reported-to-the-owning-environment")
		}
		vrt.Reach("executor")
	case 2:
		w.m.HandleAgentFailed(&event.AgentFailedEvent{AgentId: mesos.AgentID{Value: agentId}})
		vrt.WaitQuiescent(50 * time.Millisecond)
		vrt.Assert(victim.state == sm.ERROR && victim.status == INACTIVE, "agent-loss-puts-its-tasks-in-error-and-inactive")
		vrt.Reach("agent")
	}
	_, bt := brole.lastState()
	vrt.Assert(bystander.state == sm.STANDBY && !bt, "tasks-elsewhere-are-not-affected")
}
