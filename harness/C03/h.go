//go:build verif

package environment

//verif:pkg core/environment

import (
	"time"

	"github.com/AliceO2Group/Control/common/event"
	"github.com/AliceO2Group/Control/core/controlcommands"
	"github.com/AliceO2Group/Control/core/task"
	"github.com/AliceO2Group/Control/core/task/sm"
	"github.com/AliceO2Group/Control/core/workflow"
	occpb "github.com/AliceO2Group/Control/executor/protos"
	vrt "github.com/AliceO2Group/Control/zz_vrt"
	mesos "github.com/mesos/mesos-go/api/v1/lib"
)

// A live environment (CONFIGURED or RUNNING) with two task roles, watched by the real state-watcher goroutine.
// One task - critical or not - fails on its own: its state is reported ERROR (what the task manager does for a
// terminal Mesos status of an owned task, an executor/agent failure or an internal error), possibly right after
// another state notification of the same tree. Then time passes (the 500 ms grace timer fires).
//   - critical victim: the environment leaves its healthy state and ends in ERROR - never an undocumented state -
//     and, if it was RUNNING, the end of the run is recorded;
//   - non-critical victim: the environment's state does not change.
//
//verif:entry HarnessCriticalTaskFailure unwind=96 preempt=1 lazyarrive=1 timers=lazy reach=error,unchanged stub=github.com/AliceO2Group/Control/common/utils.TimeTrack nosched=github.com/AliceO2Group/Control/core/the.mu steps=8000000
func HarnessCriticalTaskFailure() {
	c03Failure(0)
}

// The same failure of a critical task at the very moment the watcher starts (right after deployment and
// configuration, when the environment is created): whatever the interleaving of the watcher's first steps with the
// failure, the environment ends in ERROR.
//
//verif:entry HarnessFailureAtWatcherStart unwind=96 preempt=2 lazyarrive=1 timers=lazy reach=error stub=github.com/AliceO2Group/Control/common/utils.TimeTrack nosched=github.com/AliceO2Group/Control/core/the.mu steps=8000000
func HarnessFailureAtWatcherStart() {
	c03Failure(1)
}

// The failure is announced by the task itself: the executor forwards a TASK_INTERNAL_ERROR device event, which the
// environment manager handles (handleDeviceEvent). Critical victim: the environment ends in ERROR; non-critical
// victim: its state does not change.
//
//verif:entry HarnessTaskAnnouncesInternalError unwind=96 preempt=1 timers=lazy reach=error,unchanged stub=github.com/AliceO2Group/Control/common/utils.TimeTrack nosched=github.com/AliceO2Group/Control/core/the.mu steps=8000000
func HarnessTaskAnnouncesInternalError() {
	c03Failure(2)
}

// The internal error is announced while a transition of the environment is in progress (START_ACTIVITY or
// STOP_ACTIVITY, in the middle of its task part): once the transition is over and time has passed, the environment is
// in ERROR.
//
//verif:entry HarnessInternalErrorDuringATransition unwind=96 preempt=1 timers=lazy reach=error stub=github.com/AliceO2Group/Control/common/utils.TimeTrack nosched=github.com/AliceO2Group/Control/core/the.mu steps=8000000
func HarnessInternalErrorDuringATransition() {
	c03Failure(3)
}

func c03Failure(mode int) {
	atStart, deviceEvent, duringTransition := mode == 1, mode == 2 || mode == 3, mode == 3
	running := vrt.Bool("running")
	state := "CONFIGURED"
	taskState := sm.CONFIGURED
	if running {
		state, taskState = "RUNNING", sm.RUNNING
	}
	victimCritical, noiseFirst, goErrorHookFails, flap := true, false, false, false
	if duringTransition {
		victimCritical = true
	} else if deviceEvent {
		victimCritical = vrt.Bool("victim.critical")
	} else if !atStart {
		victimCritical = vrt.Bool("victim.critical")
		noiseFirst = vrt.Bool("noise.first") // another critical task changes state just before the victim fails
		goErrorHookFails = vrt.Bool("goerror.hook.fails")
		flap = vrt.Bool("victim.flaps") // the failed task reports a healthy state again within the grace period
	}

	events := make(chan event.Event, 16)
	var world *task.VerifWorld
	world = task.VerifNewWorld([]string{"victim", "other"}, events, func(cmd controlcommands.MesosCommand, rcv controlcommands.MesosCommandTarget) error {
		world.Reply(cmd, rcv, nil)
		return nil
	})
	rec := &fenvRec{}
	var hooks []fenvHook
	if goErrorHookFails {
		hooks = append(hooks, fenvHook{name: "h", trigger: "before_GO_ERROR", critical: true})
		rec.onCall = failingCall
	}
	conf := &fenvConf{}
	env := fenvNew(conf, rec, state, hooks)
	victim := workflow.VerifTaskRole("victim", victimCritical, world.Tasks[0])
	other := workflow.VerifTaskRole("other", true, world.Tasks[1])
	roles := []workflow.Role{victim, other}
	for _, h := range hooks {
		roles = append(roles, workflow.NewCallRole(h.name, task.Traits{Trigger: h.trigger, Await: h.trigger, Timeout: "5s", Critical: h.critical}, "verif.Hook()", ""))
	}
	env.workflow = workflow.NewAggregatorRole("root", roles)
	workflow.LinkChildrenToParents(env.workflow)
	workflow.VerifAttach(env.workflow, env.wfAdapter)
	for _, r := range []workflow.Role{victim, other} {
		r.(workflow.PublicUpdatable).UpdateState(taskState)
	}
	if running {
		env.currentRunNumber = 7
		env.workflow.SetRuntimeVar("run_start_time_ms", "1000")
		env.workflow.SetRuntimeVar("run_end_time_ms", "")
		env.workflow.SetRuntimeVar("run_end_completion_time_ms", "")
	}
	envs := NewEnvManager(world.M, events)
	envs.m[env.id] = env
	envs.pendingStateChangeCh[env.id] = env.stateChangedCh
	env.subscribeToWfState(world.M)
	if !atStart {
		vrt.WaitQuiescent(50 * time.Millisecond) // the watcher is subscribed and waiting
	}

	if noiseFirst {
		go other.(workflow.PublicUpdatable).UpdateState(sm.STANDBY) // root goes MIXED
	}
	if deviceEvent {
		t := world.Tasks[0]
		origin := event.DeviceEventOrigin{TaskId: mesos.TaskID{Value: t.GetTaskId()}, AgentId: mesos.AgentID{Value: t.GetAgentId()}, ExecutorId: mesos.ExecutorID{Value: t.GetExecutorId()}}
		announce := func() {
			envs.handleDeviceEvent(event.NewDeviceEvent(origin, occpb.DeviceEventType_TASK_INTERNAL_ERROR))
		}
		if duringTransition {
			name := "START_ACTIVITY"
			if running {
				name = "STOP_ACTIVITY"
			}
			err := env.TryTransition(fenvTransition{name: name, rec: rec, body: func(*Environment) {
				announce()
				vrt.WaitQuiescent(20 * time.Millisecond) // whatever the announcement sets off has happened before the task part ends
			}})
			vrt.Assert(err == nil, "the-transition-in-progress-completes")
			state = env.CurrentState()
		} else {
			announce()
		}
	} else {
		victim.(workflow.PublicUpdatable).UpdateState(sm.ERROR)
	}
	if flap {
		victim.(workflow.PublicUpdatable).UpdateState(sm.STANDBY)
	}

	vrt.WaitQuiescent(1500 * time.Millisecond) // well beyond the 500 ms grace period
	vrt.Trace("final state", env.CurrentState(), "root", env.workflow.GetState().String())

	post := env.CurrentState()
	if victimCritical && flap {
		// the task is healthy again when time has passed: ERROR or the source state are both defensible,
		// anything else is not
		vrt.Assert(post == "ERROR" || post == state, "never-an-undocumented-state")
	} else if victimCritical {
		vrt.Assert(post == "ERROR", "critical-task-failure-drives-the-environment-to-error")
		if running {
			end, _ := env.workflow.GetUserVars().Get("run_end_time_ms")
			vrt.Assert(end != "", "end-of-run-is-recorded")
		}
		vrt.Reach("error")
	} else {
		vrt.Assert(post == state || (noiseFirst && post == state), "non-critical-task-failure-never-changes-the-environment-state")
		vrt.Reach("unchanged")
	}
	vrt.Assert(post == "ERROR" || post == state, "never-an-undocumented-state")
}
