//go:build verif

package task

//verif:pkg core/task
//verif:hook configuration/template Fields.Execute
//verif:hook core/the ConfSvc

import (
	texttemplate "text/template"

	"github.com/AliceO2Group/Control/common"
	"github.com/AliceO2Group/Control/common/controlmode"
	"github.com/AliceO2Group/Control/common/gera"
	"github.com/AliceO2Group/Control/common/utils/uid"
	"github.com/AliceO2Group/Control/configuration"
	"github.com/AliceO2Group/Control/configuration/template"
	"github.com/AliceO2Group/Control/core/repos"
	"github.com/AliceO2Group/Control/core/task/channel"
	"github.com/AliceO2Group/Control/core/task/taskclass"
	"github.com/AliceO2Group/Control/core/the"
	vrt "github.com/AliceO2Group/Control/zz_vrt"
)

// What the command line and the property map of a task see for a key k that the workflow (the consolidated
// stack of the task's role), the task template's defaults and the task template's vars each define or not, with
// arbitrary values, the empty one included: whatever comes from the workflow wins, empty or not; otherwise the key
// has one of the template's own values; a key nobody defines stays undefined. Template evaluation itself is a hook
// that records the stack each evaluation is given.
//verif:entry HarnessTaskTemplateRanksLowest unwind=16 conform=12 reach=workflow,template,undefined replace=dario.cat/mergo.Merge=>C14MergeModel
func HarnessTaskTemplateRanksLowest() {
	var seen []map[string]string
	template.VerifHook_Fields_Execute = func(f template.Fields, confSvc template.ConfigurationService, parentPath string, varStack map[string]string, objStack map[string]interface{}, baseConfigStack map[string]string, cache map[string]texttemplate.Template, repo repos.IRepo) error {
		cp := map[string]string{}
		for k, v := range varStack {
			cp[k] = v
		}
		seen = append(seen, cp)
		return nil
	}
	the.VerifHook_ConfSvc = func() configuration.Service { return nil }
	type def struct {
		has bool
		val string
	}
	wf := def{vrt.Bool("workflow.defined"), vrt.String("workflow.value")}
	dflt := def{vrt.Bool("template.defaults.defined"), vrt.String("template.defaults.value")}
	vars := def{vrt.Bool("template.vars.defined"), vrt.String("template.vars.value")}

	t, role := ftTask("x", uid.ID("2oDvieFrVTi"), true)
	role.vars = map[string]string{"unrelated.workflow": "w"}
	if wf.has {
		role.vars["k"] = wf.val
	}
	class := &taskclass.Class{Defaults: gera.MakeMap[string, string](), Vars: gera.MakeMap[string, string](), Properties: gera.MakeMap[string, string]()}
	class.Defaults.Set("unrelated.defaults", "d")
	class.Vars.Set("unrelated.vars", "v")
	if dflt.has {
		class.Defaults.Set("k", dflt.val)
	}
	if vars.has {
		class.Vars.Set("k", vars.val)
	}
	val, shell := "cmd", false
	class.Command = &common.CommandInfo{Value: &val, Shell: &shell}
	direct := vrt.Bool("direct.control")
	class.Control.Mode = controlmode.BASIC
	if direct {
		class.Control.Mode = controlmode.DIRECT
	}
	t.GetTaskClass = func() *taskclass.Class { return class }

	check := func(stack map[string]string, what string) {
		got, ok := stack["k"]
		switch {
		case wf.has:
			vrt.Assert(ok && got == wf.val, what+"-sees-the-workflow-value-even-when-it-is-empty")
			vrt.Reach("workflow")
		case dflt.has || vars.has:
			vrt.Assert(ok && ((dflt.has && got == dflt.val) || (vars.has && got == vars.val)), what+"-falls-back-to-the-task-template")
			vrt.Reach("template")
		default:
			vrt.Assert(!ok, what+"-leaves-an-undefined-key-undefined")
			vrt.Reach("undefined")
		}
		vrt.Assert(stack["unrelated.workflow"] == "w" && stack["unrelated.defaults"] == "d" && stack["unrelated.vars"] == "v", what+"-sees-every-other-key")
	}

	err := t.BuildTaskCommand(role)
	vrt.Assert(err == nil && len(seen) == 3, "command-is-built-with-three-template-evaluations")
	check(seen[2], "command-line")

	if direct { // the properties of basic tasks are not templated
		seen = nil
		_, err = t.BuildPropertyMap(channel.BindMap{})
		vrt.Assert(err == nil && len(seen) >= 1, "property-map-is-built")
		check(seen[len(seen)-1], "property-map")
	}
}
