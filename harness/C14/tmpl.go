//go:build verif

package template

//verif:pkg configuration/template

import (
	"github.com/AliceO2Group/Control/common/gera"
	vrt "github.com/AliceO2Group/Control/zz_vrt"
)

type c14Def struct {
	has bool
	val string
}

func c14Fill(m *gera.WrapMap[string, string], name string) c14Def {
	m.Set("unrelated."+name, name)
	d := c14Def{vrt.Bool(name + ".defined"), vrt.String(name + ".value")}
	if d.has {
		m.Set("k", d.val)
	}
	return d
}

// What each template-evaluation stage of a role can see (fields.go): the parent's whole stack always; the
// role's own defaults from stage 2, own vars from stage 3, own user vars from stage 4; locals always and
// above everything. Ranking inside what is visible is the usual one.
//verif:entry HarnessStageVisibility unwind=10 conform=12 reach=local,own,parent,undefined replace=dario.cat/mergo.Merge=>C14MergeModel
func HarnessStageVisibility() {
	own := [3]*gera.WrapMap[string, string]{gera.MakeMap[string, string](), gera.MakeMap[string, string](), gera.MakeMap[string, string]()}
	par := [3]*gera.WrapMap[string, string]{gera.MakeMap[string, string](), gera.MakeMap[string, string](), gera.MakeMap[string, string]()}
	kinds := []string{"defaults", "vars", "uservars"}
	var ownD, parD [3]c14Def
	for i := range kinds {
		ownD[i] = c14Fill(own[i], "own."+kinds[i])
		parD[i] = c14Fill(par[i], "parent."+kinds[i])
		own[i].Wrap(par[i])
	}
	locals := map[string]string{"unrelated.local": "l"}
	loc := c14Def{vrt.Bool("local.defined"), vrt.String("local.value")}
	if loc.has {
		locals["k"] = loc.val
	}
	vs := &VarStack{Locals: locals, Defaults: own[0], Vars: own[1], UserVars: own[2]}
	stage := Stage(vrt.IntRange("stage", int(STAGE0), int(STAGE5)))
	stack, err := vs.consolidated(stage)
	vrt.Assert(err == nil, "consolidation-succeeds")

	ownVisibleFrom := [3]Stage{STAGE2, STAGE3, STAGE4}
	// ranking: locals, then user vars (own if visible, then parent's), vars, defaults
	want, defined, src := "", false, ""
	if loc.has {
		want, defined, src = loc.val, true, "local"
	}
	for i := 2; i >= 0 && !defined; i-- {
		if stage >= ownVisibleFrom[i] && ownD[i].has {
			want, defined, src = ownD[i].val, true, "own"
		} else if parD[i].has {
			want, defined, src = parD[i].val, true, "parent"
		}
	}
	got, ok := stack["k"]
	vrt.Assert(ok == defined, "stage-defines-key-iff-a-visible-source-does")
	if defined {
		vrt.Assert(got == want, "stage-sees-the-highest-ranking-visible-source")
		vrt.Reach(src)
	} else {
		vrt.Reach("undefined")
	}
	vrt.Assert(stack["unrelated.local"] == "l" && stack["unrelated.parent.defaults"] == "parent.defaults", "locals-and-parent-stack-always-visible")
	_, ownDefaultsSeen := stack["unrelated.own.defaults"]
	vrt.Assert(ownDefaultsSeen == (stage >= STAGE2), "own-defaults-visible-from-stage-2")
	_, ownVarsSeen := stack["unrelated.own.vars"]
	vrt.Assert(ownVarsSeen == (stage >= STAGE3), "own-vars-visible-from-stage-3")
	_, ownUserSeen := stack["unrelated.own.uservars"]
	vrt.Assert(ownUserSeen == (stage >= STAGE4), "own-uservars-visible-from-stage-4")
}
