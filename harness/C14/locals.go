//go:build verif

package workflow

//verif:pkg core/workflow
//verif:hook configuration/template Fields.Execute
//verif:hook core/the ConfSvc

import (
	texttemplate "text/template"

	"github.com/AliceO2Group/Control/common/gera"
	"github.com/AliceO2Group/Control/configuration"
	"github.com/AliceO2Group/Control/configuration/template"
	"github.com/AliceO2Group/Control/core/repos"
	"github.com/AliceO2Group/Control/core/task"
	"github.com/AliceO2Group/Control/core/the"
	vrt "github.com/AliceO2Group/Control/zz_vrt"
)

type c14Repo struct{ repos.IRepo }

func (c14Repo) ResolveTaskClassIdentifier(s string) string { return s }

// An iterator-generated task role (its loop variable is in its Locals) under ancestors that define a variable of
// the same name or not, in vars or defaults, with any value (an outer iterator reusing the name, a role-level or
// environment-wide var): after the role's templates are processed, what the role - and the task it runs - sees for
// that name is its own loop value, the nearest definition.
//verif:entry HarnessIteratorLocalIsNearest unwind=16 reach=shadowing,alone replace=dario.cat/mergo.Merge=>C14MergeModel
func HarnessIteratorLocalIsNearest() {
	template.VerifHook_Fields_Execute = func(f template.Fields, confSvc template.ConfigurationService, parentPath string, varStack map[string]string, objStack map[string]interface{}, baseConfigStack map[string]string, cache map[string]texttemplate.Template, repo repos.IRepo) error {
		return nil
	}
	the.VerifHook_ConfSvc = func() configuration.Service { return nil }
	mk := func(name string) roleBase {
		return roleBase{Name: name, Enabled: "true", Defaults: gera.MakeMap[string, string](), Vars: gera.MakeMap[string, string](),
			UserVars: gera.MakeMap[string, string](), Locals: map[string]string{}}
	}
	leaf := &taskRole{roleBase: mk("t"), Traits: task.Traits{Critical: true}}
	leaf.LoadTaskClass = "class"
	own := vrt.String("own.loop.value")
	leaf.Locals["it"] = own
	group := &aggregatorRole{mk("group"), aggregator{Roles: []Role{leaf}}}
	root := &aggregatorRole{mk("root"), aggregator{Roles: []Role{group}}}
	shadowed := false
	for _, anc := range []*aggregatorRole{group, root} {
		if vrt.Bool("ancestor.var.defined") {
			anc.Vars.Set("it", vrt.String("ancestor.var.value"))
			shadowed = true
		}
		if vrt.Bool("ancestor.default.defined") {
			anc.Defaults.Set("it", vrt.String("ancestor.default.value"))
			shadowed = true
		}
	}
	LinkChildrenToParents(root)
	err := leaf.ProcessTemplates(c14Repo{}, nil, map[string]string{})
	vrt.Assert(err == nil, "templates-are-processed")
	stack, err := leaf.ConsolidatedVarStack()
	vrt.Assert(err == nil, "stack-is-consolidated")
	got, ok := stack["it"]
	vrt.Assert(ok && got == own, "role-sees-its-own-loop-value")
	if shadowed {
		vrt.Reach("shadowing")
	} else {
		vrt.Reach("alone")
	}
}
