//go:build verif

package gera

//verif:pkg common/gera

import (
	"dario.cat/mergo"
	vrt "github.com/AliceO2Group/Control/zz_vrt"
)

// C14MergeModel is what mergo.Merge does on map[string]string. With mergo.WithOverride (the only option the
// code base uses on maps): every entry of src, empty values included, replaces the entry of dst. Without an
// option: an entry of src is taken only where dst has no entry or an empty one. It stands for the
// reflection-based library call under the interpreter; TestVerifNativeMergoModel compares both modes with the
// real mergo on every run.
func C14MergeModel(dst, src interface{}, opts ...func(*mergo.Config)) error {
	d, ok1 := dst.(*map[string]string)
	s, ok2 := src.(map[string]string)
	if !ok1 || !ok2 {
		panic("C14MergeModel: unexpected types")
	}
	if *d == nil && len(s) > 0 {
		*d = map[string]string{}
	}
	for k, v := range s {
		if len(opts) == 0 {
			if cur, has := (*d)[k]; has && cur != "" {
				continue
			}
		}
		(*d)[k] = v
	}
	return nil
}

// c14Level fills one map with an optional definition of key "k" (arbitrary value, possibly empty) and an
// unrelated key.
func c14Level(name string) (*WrapMap[string, string], bool, string) {
	m := MakeMap[string, string]()
	m.Set("unrelated."+name, name)
	has, val := vrt.Bool(name+".defined"), vrt.String(name+".value")
	if has {
		m.Set("k", val)
	}
	return m, has, val
}

const c14Replace = "replace=dario.cat/mergo.Merge=>C14MergeModel"

// A chain child -> parent -> grandparent: Get, Flattened, FlattenedParent, WrappedAndFlattened, FlattenStack
// and Copy all see the nearest definition; an empty value is a definition; nothing else is invented.
//verif:entry HarnessGeraChain unwind=8 conform=12 reach=child,parent,grand,none replace=dario.cat/mergo.Merge=>C14MergeModel
func HarnessGeraChain() {
	c, hc, vc := c14Level("child")
	p, hp, vp := c14Level("parent")
	g, hg, vg := c14Level("grand")
	c.Wrap(p.Wrap(g))
	want, defined := "", false
	switch {
	case hc:
		want, defined = vc, true
		vrt.Reach("child")
	case hp:
		want, defined = vp, true
		vrt.Reach("parent")
	case hg:
		want, defined = vg, true
		vrt.Reach("grand")
	default:
		vrt.Reach("none")
	}
	got, ok := c.Get("k")
	vrt.Assert(ok == defined && (!ok || got == want), "get-sees-nearest-definition")
	vrt.Assert(c.Has("k") == defined, "has-agrees-with-get")
	flat, err := c.Flattened()
	fv, fok := flat["k"]
	vrt.Assert(err == nil && fok == defined && (!fok || fv == want), "flattened-sees-nearest-definition")
	vrt.Assert(flat["unrelated.child"] == "child" && flat["unrelated.parent"] == "parent" && flat["unrelated.grand"] == "grand" && len(flat) <= 4, "flattened-keeps-everything-else-and-invents-nothing")
	// the parent's own view
	pflat, _ := c.FlattenedParent()
	pv, pok := pflat["k"]
	vrt.Assert(pok == (hp || hg) && (!pok || (hp && pv == vp) || (!hp && pv == vg)), "flattened-parent-ignores-the-child")
	// a copy keeps the parent link
	cv, cok := c.Copy().Get("k")
	vrt.Assert(cok == defined && (!cok || cv == want), "copy-sees-the-same")
	// receiver over argument
	waf, _ := MakeMapWithMap(map[string]string{"k": "top"}).WrappedAndFlattened(c)
	vrt.Assert(waf["k"] == "top" && waf["unrelated.grand"] == "grand", "wrapped-and-flattened-receiver-overrides-argument")
	waf2, _ := MakeMapWithMap(map[string]string{"z": "top"}).WrappedAndFlattened(c)
	wv, wok := waf2["k"]
	vrt.Assert(wok == defined && (!wok || wv == want), "wrapped-and-flattened-keeps-the-argument-otherwise")
	// later arguments of FlattenStack rank higher
	fs, _ := FlattenStack[string, string](g, p)
	sv, sok := fs["k"]
	vrt.Assert(sok == (hp || hg) && (!sok || (hp && sv == vp) || (!hp && sv == vg)), "flatten-stack-later-maps-override-earlier")
}
