//go:build verif

package workflow

//verif:pkg core/workflow

import (
	"github.com/AliceO2Group/Control/common/event"
	"github.com/AliceO2Group/Control/common/gera"
	"github.com/AliceO2Group/Control/common/utils/uid"
	"github.com/AliceO2Group/Control/core/task"
	vrt "github.com/AliceO2Group/Control/zz_vrt"
)

type c14Def struct {
	has bool
	val string
}

// c14Fill puts an optional definition of key "k" (arbitrary, possibly empty value) into m.
func c14Fill(m gera.Map[string, string], name string) c14Def {
	m.Set("unrelated."+name, name)
	d := c14Def{vrt.Bool(name + ".defined"), vrt.String(name + ".value")}
	if d.has {
		m.Set("k", d.val)
	}
	return d
}

func c14First(defs ...c14Def) (string, bool) {
	for _, d := range defs {
		if d.has {
			return d.val, true
		}
	}
	return "", false
}

// The value a role sees: user vars over vars over defaults; within one kind the nearest definition; the
// environment-wide maps (configuration store / user input) are the outermost ancestor; empty is a value.
//verif:entry HarnessRolePrecedence unwind=16 conform=12 reach=user,vars,defaults,undefined replace=dario.cat/mergo.Merge=>C14MergeModel
func HarnessRolePrecedence() {
	envD, envV, envU := gera.MakeMap[string, string](), gera.MakeMap[string, string](), gera.MakeMap[string, string]()
	adapter := NewParentAdapter(
		func() uid.ID { return uid.NilID() },
		func() uint32 { return 0 },
		func() gera.Map[string, string] { return envD },
		func() gera.Map[string, string] { return envV },
		func() gera.Map[string, string] { return envU },
		func(event.Event) {},
	)
	mkBase := func(name string) roleBase {
		return roleBase{Name: name, Defaults: gera.MakeMap[string, string](), Vars: gera.MakeMap[string, string](), UserVars: gera.MakeMap[string, string]()}
	}
	leaf := &taskRole{roleBase: mkBase("leaf"), Traits: task.Traits{Critical: true}}
	mid := &aggregatorRole{mkBase("mid"), aggregator{Roles: []Role{leaf}}}
	root := &aggregatorRole{mkBase("root"), aggregator{Roles: []Role{mid}}}
	LinkChildrenToParents(root)
	root.setParent(adapter)

	// which role looks: 0 leaf, 1 mid, 2 root; definitions below the looking role are irrelevant
	who := vrt.IntRange("who", 0, 2)
	var d, v, u []c14Def // nearest first
	levels := []*roleBase{&leaf.roleBase, &mid.roleBase, &root.roleBase}
	names := []string{"leaf", "mid", "root"}
	for i, rb := range levels {
		dd, vv, uu := c14Fill(rb.Defaults, names[i]+".defaults"), c14Fill(rb.Vars, names[i]+".vars"), c14Fill(rb.UserVars, names[i]+".uservars")
		if i >= who {
			d, v, u = append(d, dd), append(v, vv), append(u, uu)
		}
	}
	d = append(d, c14Fill(envD, "env.defaults"))
	v = append(v, c14Fill(envV, "env.vars"))
	u = append(u, c14Fill(envU, "env.uservars"))

	var looker Role = leaf
	if who == 1 {
		looker = mid
	} else if who == 2 {
		looker = root
	}
	stack, err := looker.ConsolidatedVarStack()
	vrt.Assert(err == nil, "consolidation-succeeds")
	got, ok := stack["k"]
	var all []c14Def
	all = append(append(append(all, u...), v...), d...)
	want, defined := c14First(all...)
	vrt.Assert(ok == defined, "defined-iff-some-source-defines-it")
	if defined {
		vrt.Assert(got == want, "value-comes-from-the-highest-ranking-source")
	}
	switch {
	case !defined:
		vrt.Reach("undefined")
	case func() bool { _, x := c14First(u...); return x }():
		vrt.Reach("user")
	case func() bool { _, x := c14First(v...); return x }():
		vrt.Reach("vars")
	default:
		vrt.Reach("defaults")
	}
	// the three maps separately
	dm, vm, um, err := looker.ConsolidatedVarMaps()
	vrt.Assert(err == nil, "consolidated-maps-succeed")
	for i, pair := range []struct {
		m    map[string]string
		defs []c14Def
	}{{dm, d}, {vm, v}, {um, u}} {
		w, def := c14First(pair.defs...)
		g, has := pair.m["k"]
		vrt.Assert(has == def && (!has || g == w), []string{"defaults-map-nearest-wins", "vars-map-nearest-wins", "uservars-map-nearest-wins"}[i])
	}
	vrt.Assert(stack["unrelated.env.defaults"] == "env.defaults" && stack["unrelated.env.uservars"] == "env.uservars", "environment-wide-values-are-visible")
}
