//go:build verif

package gera

//verif:pkg common/gera

import (
	"reflect"
	"testing"

	"dario.cat/mergo"
)

// Compares the 3-line model used under the interpreter with the real mergo.Merge(WithOverride) over every
// pair of maps with keys in {a,b} and values in {absent, "", "x", "y"}, plus nil maps (17*17 pairs).
//verif:native TestVerifNativeMergoModel
func TestVerifNativeMergoModel(t *testing.T) {
	vals := []string{"\x00absent", "", "x", "y"}
	var maps []map[string]string
	for _, va := range vals {
		for _, vb := range vals {
			m := map[string]string{}
			if va != vals[0] {
				m["a"] = va
			}
			if vb != vals[0] {
				m["b"] = vb
			}
			maps = append(maps, m)
		}
	}
	maps = append(maps, nil)
	clone := func(m map[string]string) map[string]string {
		if m == nil {
			return nil
		}
		c := map[string]string{}
		for k, v := range m {
			c[k] = v
		}
		return c
	}
	n := 0
	for _, d := range maps {
		for _, s := range maps {
			real, model := clone(d), clone(d)
			err1 := mergo.Merge(&real, clone(s), mergo.WithOverride)
			err2 := C14MergeModel(&model, clone(s), mergo.WithOverride)
			if (err1 == nil) != (err2 == nil) || !(reflect.DeepEqual(real, model) || (len(real) == 0 && len(model) == 0)) {
				t.Fatalf("mergo model differs: dst=%v src=%v real=%v (%v) model=%v (%v)", d, s, real, err1, model, err2)
			}
			real, model = clone(d), clone(d)
			err1 = mergo.Merge(&real, clone(s))
			err2 = C14MergeModel(&model, clone(s))
			if (err1 == nil) != (err2 == nil) || !(reflect.DeepEqual(real, model) || (len(real) == 0 && len(model) == 0)) {
				t.Fatalf("mergo model (no override) differs: dst=%v src=%v real=%v (%v) model=%v (%v)", d, s, real, err1, model, err2)
			}
			n += 2
		}
	}
	t.Logf("compared %d pairs", n)
}
