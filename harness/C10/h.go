//go:build verif

package environment

//verif:pkg core/environment

import (
	"errors"
	"strconv"
	"time"

	"github.com/AliceO2Group/Control/core/workflow/callable"
	vrt "github.com/AliceO2Group/Control/zz_vrt"
)

type c10Snap struct {
	point   string
	rn      uint32
	rnVar   string
	rnVarOk bool
	ts      [4]string // run_start_time_ms, run_start_completion_time_ms, run_end_time_ms, run_end_completion_time_ms
}

var c10Keys = [4]string{"run_start_time_ms", "run_start_completion_time_ms", "run_end_time_ms", "run_end_completion_time_ms"}

func c10Take(env *Environment, point string) c10Snap {
	s := c10Snap{point: point, rn: env.GetCurrentRunNumber()}
	s.rnVar, s.rnVarOk = env.workflow.GetVars().Get("run_number")
	for i, k := range c10Keys {
		s.ts[i], _ = env.workflow.GetUserVars().Get(k)
	}
	return s
}

func c10Num(s string) int64 {
	n, err := strconv.ParseInt(s, 10, 64)
	vrt.Assert(err == nil, "timestamp-is-a-number")
	return n
}

// probe hooks at weight -1 and +1 of every moment of START_ACTIVITY, STOP_ACTIVITY and GO_ERROR
func c10Probes() []fenvHook {
	var hs []fenvHook
	for _, m := range []string{"before_START_ACTIVITY", "leave_CONFIGURED", "enter_RUNNING", "after_START_ACTIVITY",
		"before_STOP_ACTIVITY", "leave_RUNNING", "enter_CONFIGURED", "after_STOP_ACTIVITY", "before_GO_ERROR", "enter_ERROR", "after_GO_ERROR"} {
		hs = append(hs, fenvHook{name: m + "-1", trigger: m + "-1"}, fenvHook{name: m + "+1", trigger: m + "+1"})
	}
	return hs
}

// checkRun checks the snapshots of one run that started successfully (snaps[from] is before_START-1).
func c10CheckRun(snaps []c10Snap, from int, rn uint32) int {
	i := from
	vrt.Assert(snaps[i].point == "root.before_START_ACTIVITY-1", "run-begins-with-the-negative-before-hooks")
	vrt.Assert(snaps[i].rn != rn && (!snaps[i].rnVarOk || snaps[i].rnVar != strconv.FormatUint(uint64(rn), 10)), "run-number-not-visible-to-negative-before-hooks")
	i++
	var first c10Snap
	for ; i < len(snaps); i++ {
		s := snaps[i]
		if s.point == "root.before_START_ACTIVITY-1" {
			break // next run
		}
		if i == from+1 {
			first = s
			vrt.Assert(s.point == "root.before_START_ACTIVITY+1", "positive-before-hooks-follow")
			vrt.Assert(s.ts[0] != "", "start-of-run-timestamp-set-between-negative-and-positive-before-hooks")
			vrt.Assert(s.ts[1] == "" && s.ts[2] == "" && s.ts[3] == "", "timestamps-of-a-previous-run-are-cleared")
		}
		vrt.Assert(s.rn == rn && s.rnVarOk && s.rnVar == strconv.FormatUint(uint64(rn), 10), "run-number-visible-unchanged-until-after-stop")
		// each timestamp is set at most once per run
		for k := 0; k < 4; k++ {
			if snaps[i-1].ts[k] != "" && i-1 > from {
				vrt.Assert(s.ts[k] == snaps[i-1].ts[k], "run-timestamp-set-at-most-once")
			}
		}
		vrt.Assert(s.ts[0] == first.ts[0], "start-of-run-timestamp-never-changes")
	}
	return i
}

// Histories over one environment, with real START/STOP/GO_ERROR transitions, an arbitrary non-decreasing
// clock and arbitrary increasing run numbers:
//
//	0: START, STOP, START        1: START, GO_ERROR        2: START (tasks fail), START
//	3: START, STOP (tasks fail), GO_ERROR (what the API does with a failed transition)
//	4: START cancelled by a failing critical before_START_ACTIVITY+1 hook, START
//	5: START, STOP whose tasks stop but a critical hook fails late (enter_CONFIGURED+1 or after_STOP_ACTIVITY+1):
//	   the run is over all the same - end stamps set, number gone -, then START again
//	6: START, STOP, then a START cancelled before a run number is drawn (critical before_START_ACTIVITY-1 hook), then
//	   the GO_ERROR the API performs after a failed transition: no run exists, the stamps of the finished run stay as
//	   they were
//
//verif:entry HarnessRunBracket unwind=96 conform=12 preempt=0 reach=h0,h1,h2,h3,h4,h5,h6 stub=github.com/AliceO2Group/Control/common/utils.TimeTrack nosched=github.com/AliceO2Group/Control/core/the.mu steps=6000000
func HarnessRunBracket() {
	hist := vrt.IntRange("history", 0, 6)
	rn1, rn2 := vrt.Uint32("rn1"), vrt.Uint32("rn2")
	vrt.Assume(rn1 > 0 && rn2 > rn1)
	rec := &fenvRec{}
	var env *Environment
	var snaps []c10Snap
	hookFailsOnce := hist == 4 || hist == 5
	failingHook := "before_START_ACTIVITY+1"
	if hist == 6 {
		failingHook = "before_START_ACTIVITY-1"
	}
	armed := hist != 6 // in history 6 the hook only fails on the second START
	if hist == 5 {
		failingHook = []string{"enter_CONFIGURED+1", "after_STOP_ACTIVITY+1"}[vrt.IntRange("late.failure", 0, 1)]
	}
	rec.onCall = func(c *callable.Call) error {
		snaps = append(snaps, c10Take(env, c.GetName()))
		if (hookFailsOnce || hist == 6) && armed && c.GetName() == "root."+failingHook {
			hookFailsOnce, armed = false, false
			return errors.New("hook failed")
		}
		return nil
	}
	conf := &fenvConf{}
	conf.rnNext = func() uint32 {
		if conf.rnCalls == 1 {
			return rn1
		}
		return rn2
	}
	probes := c10Probes()
	if hist == 4 || hist == 5 || hist == 6 {
		for i := range probes {
			probes[i].critical = probes[i].name == failingHook
		}
	}
	env = fenvNew(conf, rec, "CONFIGURED", probes)
	failAt := -1
	if hist == 2 {
		failAt = 0
	} else if hist == 3 {
		failAt = 1
	}
	tm := fenvTaskman(rec, env, func(n int) bool { return n == failAt })
	start, stop, goErr := NewStartActivityTransition(tm), NewStopActivityTransition(tm), NewGoErrorTransition(tm)
	endSet := func() {
		e := c10Take(env, "end")
		vrt.Assert(e.ts[2] != "" && e.ts[3] != "", "end-of-run-timestamps-set-however-the-run-ends")
		vrt.Assert(c10Num(e.ts[0]) <= c10Num(e.ts[1]) && c10Num(e.ts[1]) <= c10Num(e.ts[2]) && c10Num(e.ts[2]) <= c10Num(e.ts[3]), "run-timestamps-are-ordered")
	}
	switch hist {
	case 0:
		vrt.Assert(env.TryTransition(start) == nil && env.CurrentState() == "RUNNING", "first-start-succeeds")
		vrt.Assert(env.TryTransition(stop) == nil && env.CurrentState() == "CONFIGURED", "stop-succeeds")
		endSet()
		vrt.Assert(env.GetCurrentRunNumber() == 0, "run-number-gone-after-stop")
		_, has := env.workflow.GetVars().Get("run_number")
		vrt.Assert(!has, "run-number-variable-gone-after-stop")
		vrt.Assert(env.TryTransition(start) == nil && env.CurrentState() == "RUNNING", "second-start-succeeds")
		next := c10CheckRun(snaps, 0, rn1)
		vrt.Assert(next < len(snaps), "second-run-was-observed")
		c10CheckRun(snaps, next, rn2)
		vrt.Assert(conf.rnCalls == 2, "every-start-draws-a-fresh-run-number")
		vrt.Reach("h0")
	case 1:
		vrt.Assert(env.TryTransition(start) == nil && env.CurrentState() == "RUNNING", "start-succeeds")
		vrt.Assert(env.TryTransition(goErr) == nil && env.CurrentState() == "ERROR", "go-error-succeeds")
		endSet()
		c10CheckRun(snaps, 0, rn1)
		vrt.Reach("h1")
	case 2:
		vrt.Assert(env.TryTransition(start) != nil && env.CurrentState() == "CONFIGURED", "failed-start-stays-configured")
		vrt.Assert(env.GetCurrentRunNumber() == 0, "failed-start-drops-its-run-number")
		n := len(snaps)
		vrt.Assert(env.TryTransition(start) == nil && env.CurrentState() == "RUNNING", "retry-succeeds")
		c10CheckRun(snaps, n, rn2)
		vrt.Assert(conf.rnCalls == 2, "the-retry-draws-a-fresh-run-number")
		vrt.Reach("h2")
	case 4:
		vrt.Assert(env.TryTransition(start) != nil && env.CurrentState() == "CONFIGURED", "start-cancelled-by-a-critical-hook")
		n := len(snaps)
		vrt.Assert(env.TryTransition(start) == nil && env.CurrentState() == "RUNNING", "second-attempt-succeeds")
		vrt.Assert(conf.rnCalls == 2, "every-attempt-to-start-draws-a-fresh-run-number")
		c10CheckRun(snaps, n, rn2)
		vrt.Reach("h4")
	case 6:
		vrt.Assert(env.TryTransition(start) == nil && env.CurrentState() == "RUNNING", "first-start-succeeds")
		vrt.Assert(env.TryTransition(stop) == nil && env.CurrentState() == "CONFIGURED", "stop-succeeds")
		endSet()
		finished := c10Take(env, "after-stop")
		armed = true
		vrt.Assert(env.TryTransition(start) != nil && env.CurrentState() == "CONFIGURED", "start-cancelled-by-a-critical-hook")
		vrt.Assert(env.GetCurrentRunNumber() == 0 && conf.rnCalls == 1, "cancelled-before-a-run-number-is-drawn")
		if !vrt.Symbolic() {
			time.Sleep(3 * time.Millisecond)
		}
		vrt.Assert(env.TryTransition(goErr) == nil && env.CurrentState() == "ERROR", "go-error-after-the-failed-start")
		after := c10Take(env, "after-go-error")
		for k := 0; k < 4; k++ {
			vrt.Assert(after.ts[k] == finished.ts[k], "stamps-of-a-finished-run-are-not-touched-when-no-run-exists")
		}
		c10CheckRun(snaps, 0, rn1)
		vrt.Reach("h6")
	case 5:
		vrt.Assert(env.TryTransition(start) == nil && env.CurrentState() == "RUNNING", "first-start-succeeds")
		vrt.Assert(env.TryTransition(stop) != nil && env.CurrentState() == "CONFIGURED", "late-hook-failure-is-reported-and-the-run-is-stopped")
		endSet()
		vrt.Assert(env.GetCurrentRunNumber() == 0, "run-number-gone-after-stop")
		_, has := env.workflow.GetVars().Get("run_number")
		vrt.Assert(!has, "run-number-variable-gone-after-stop")
		vrt.Assert(env.TryTransition(start) == nil && env.CurrentState() == "RUNNING", "second-start-succeeds")
		next := c10CheckRun(snaps, 0, rn1)
		vrt.Assert(next < len(snaps), "second-run-was-observed")
		c10CheckRun(snaps, next, rn2)
		vrt.Reach("h5")
	case 3:
		vrt.Assert(env.TryTransition(start) == nil, "start-succeeds")
		vrt.Assert(env.TryTransition(stop) != nil && env.CurrentState() == "RUNNING", "failed-stop-stays-running")
		if !vrt.Symbolic() {
			time.Sleep(3 * time.Millisecond) // natively the clock has to move for a second stamp to differ from the first
		}
		before := c10Take(env, "after-failed-stop")
		vrt.Assert(env.TryTransition(goErr) == nil && env.CurrentState() == "ERROR", "go-error-after-failed-stop")
		after := c10Take(env, "after-go-error")
		if before.ts[2] != "" {
			vrt.Assert(after.ts[2] == before.ts[2], "run-timestamp-set-at-most-once")
		}
		endSet()
		c10CheckRun(snaps, 0, rn1)
		vrt.Reach("h3")
	}
}
