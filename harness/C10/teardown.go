//go:build verif

package environment

//verif:pkg core/environment

import (
	"github.com/AliceO2Group/Control/common/event"
	"github.com/AliceO2Group/Control/core/controlcommands"
	"github.com/AliceO2Group/Control/core/task"
	"github.com/AliceO2Group/Control/core/workflow/callable"
	vrt "github.com/AliceO2Group/Control/zz_vrt"
)

// A run that ends by a forced teardown while RUNNING: straight away, or after a STOP_ACTIVITY attempt that failed
// at an arbitrary point (critical hook at before_STOP_ACTIVITY-1 / +1 or leave_RUNNING+1, or the task part) and
// left the environment RUNNING with, depending on the point, the end-of-run stamp already set. Whatever the
// history, when the environment is DONE both end stamps are set, once, and the four stamps are ordered.
//
//verif:entry HarnessTeardownWhileRunning unwind=96 conform=12 preempt=0 timers=lazy reach=straight,after-failed-stop stub=github.com/AliceO2Group/Control/common/utils.TimeTrack nosched=github.com/AliceO2Group/Control/core/the.mu steps=8000000
func HarnessTeardownWhileRunning() {
	events := make(chan event.Event, 16)
	var world *task.VerifWorld
	world = task.VerifNewWorld(nil, events, func(cmd controlcommands.MesosCommand, rcv controlcommands.MesosCommandTarget) error {
		world.Reply(cmd, rcv, nil)
		return nil
	})
	failedStop := vrt.IntRange("failed.stop", 0, 4) // 0 = no stop attempt; 1..3 = failing hook; 4 = task part fails
	failingHook := []string{"", "before_STOP_ACTIVITY-1", "before_STOP_ACTIVITY+1", "leave_RUNNING+1", ""}[failedStop]
	rec := &fenvRec{}
	var env *Environment
	var endSeen []string
	rec.onCall = func(c *callable.Call) error {
		v, _ := env.workflow.GetUserVars().Get("run_end_time_ms")
		endSeen = append(endSeen, v)
		if failingHook != "" && c.GetName() == "root."+failingHook {
			failingHook = "" // fails during the stop attempt only
			return failingCall(c)
		}
		return nil
	}
	var hooks []fenvHook
	for _, h := range []string{"before_STOP_ACTIVITY-1", "before_STOP_ACTIVITY+1", "leave_RUNNING+1"} {
		hooks = append(hooks, fenvHook{name: h, trigger: h, critical: true})
	}
	env = fenvNew(&fenvConf{}, rec, "CONFIGURED", hooks)
	envs := NewEnvManager(world.M, events)
	envs.m[env.id] = env
	envs.pendingStateChangeCh[env.id] = env.stateChangedCh
	tm := fenvTaskman(rec, env, func(n int) bool { return failedStop == 4 && n == 1 })
	vrt.Assert(env.TryTransition(NewStartActivityTransition(tm)) == nil && env.CurrentState() == "RUNNING", "start-succeeds")
	if failedStop != 0 {
		vrt.Assert(env.TryTransition(NewStopActivityTransition(tm)) != nil && env.CurrentState() == "RUNNING", "failed-stop-stays-running")
	}
	before := c10Take(env, "before-teardown")
	err := envs.TeardownEnvironment(env.id, true)
	vrt.Assert(err == nil && env.CurrentState() == "DONE", "forced-teardown-of-a-running-environment-succeeds")
	e := c10Take(env, "end")
	vrt.Assert(e.ts[2] != "" && e.ts[3] != "", "end-of-run-timestamps-set-however-the-run-ends")
	vrt.Assert(c10Num(e.ts[0]) <= c10Num(e.ts[1]) && c10Num(e.ts[1]) <= c10Num(e.ts[2]) && c10Num(e.ts[2]) <= c10Num(e.ts[3]), "run-timestamps-are-ordered")
	for k := 0; k < 4; k++ {
		if before.ts[k] != "" {
			vrt.Assert(e.ts[k] == before.ts[k], "run-timestamp-set-at-most-once")
		}
	}
	if failedStop == 0 {
		vrt.Reach("straight")
	} else {
		vrt.Reach("after-failed-stop")
	}
}

// A forced teardown requested while START_ACTIVITY is in flight: the two are executed one after the other; if the
// run had started when the environment was torn down, its end stamps are set (and ordered) like those of any run.
//verif:entry HarnessTeardownRacingStart unwind=96 preempt=2 timers=lazy reach=run-ended,no-run stub=github.com/AliceO2Group/Control/common/utils.TimeTrack nosched=github.com/AliceO2Group/Control/core/the.mu steps=8000000
func HarnessTeardownRacingStart() {
	events := make(chan event.Event, 16)
	var world *task.VerifWorld
	world = task.VerifNewWorld(nil, events, func(cmd controlcommands.MesosCommand, rcv controlcommands.MesosCommandTarget) error {
		world.Reply(cmd, rcv, nil)
		return nil
	})
	rec := &fenvRec{}
	env := fenvNew(&fenvConf{}, rec, "CONFIGURED", nil)
	envs := NewEnvManager(world.M, events)
	envs.m[env.id] = env
	envs.pendingStateChangeCh[env.id] = env.stateChangedCh
	tm := fenvTaskman(rec, env, nil)
	started, torn := make(chan error, 1), make(chan error, 1)
	go func() { started <- env.TryTransition(NewStartActivityTransition(tm)) }()
	go func() { torn <- envs.TeardownEnvironment(env.id, true) }()
	startErr, tearErr := <-started, <-torn
	vrt.Assert(tearErr == nil && env.CurrentState() == "DONE", "forced-teardown-succeeds")
	e := c10Take(env, "end")
	if startErr == nil {
		// the run began before the teardown: it is ended by it
		vrt.Assert(e.ts[0] != "" && e.ts[1] != "", "started-run-has-its-start-stamps")
		vrt.Assert(e.ts[2] != "" && e.ts[3] != "", "end-of-run-timestamps-set-however-the-run-ends")
		vrt.Assert(c10Num(e.ts[0]) <= c10Num(e.ts[1]) && c10Num(e.ts[1]) <= c10Num(e.ts[2]) && c10Num(e.ts[2]) <= c10Num(e.ts[3]), "run-timestamps-are-ordered")
		vrt.Reach("run-ended")
	} else {
		vrt.Reach("no-run")
	}
}
