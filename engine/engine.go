package main

import (
	"fmt"
	"go/token"
	"go/types"
	"os"
	"path/filepath"
	"sort"
	"strconv"
	"strings"
	"sync"

	"golang.org/x/tools/go/packages"
	"golang.org/x/tools/go/ssa"
	"golang.org/x/tools/go/ssa/ssautil"
)

// repoRoot is the tree the encoding is generated from: /repo, unless VERIF_REPO names a scratch worktree
// (used by tools/tryseed.sh to run a check against a seeded change without touching /repo).
var repoRoot = func() string {
	if r := os.Getenv("VERIF_REPO"); r != "" {
		return r
	}
	return "/repo"
}()

const modPath = "github.com/AliceO2Group/Control"

// Config holds the bounds and switches of one harness entry.
type Config struct {
	Entry          string
	PkgDir         string // directory of the package holding the entry, relative to /repo
	Unwind         int
	MaxSteps       int
	MaxDepth       int
	MaxDecisions   int
	MaxPaths       int
	Preempt        int
	Timers         string // lazy | eager | never
	Race           bool
	MapOrderPerm   int
	MapOrderIn     []string
	Conform        int // number of completed sample paths re-run natively and compared (0 = off)
	AtomicsVisible bool
	DeadlockOK     bool
	SleepSets      bool
	SleepBound     bool     // a sibling may sleep only if its representative schedule stays within the pre-emption bound (sched.go)
	LazyArrive     bool     // a thread that completed a visible operation does not run on to its next one by itself: "arriving" there is a schedulable step (exposes windows in which a thread is not yet waiting: non-blocking sends, TryLock)
	NoSched        []string // package-level mutexes ("pkgpath.var") whose uncontended Lock/Unlock are not scheduling points
	Silence        []string
	NoInit         []string
	RunInit        []string
	Summarize      []string          // pure functions merged into ite-terms instead of forking
	Replace        map[string]string // function (full SSA name) -> harness function (name in the harness package) used instead
	Stub           []string          // functions (full SSA names) replaced by "return zero values"
	Reach          []string          // labels that must be reached
	SolverMs       int
	Workers        int
	ExpectFail     bool // reachability twin: must be violated
	Tier           string
	Raw            map[string]string
}

func (c *Config) noInit(path string) bool {
	for _, p := range c.NoInit {
		if path == p || strings.HasPrefix(path, p+"/") {
			return true
		}
	}
	return false
}

func (c *Config) summarized(name string) bool {
	for _, p := range c.Summarize {
		if name == p {
			return true
		}
	}
	return false
}

func (c *Config) stubbed(name string) bool {
	for _, p := range c.Stub {
		if name == p {
			return true
		}
	}
	return false
}

func (c *Config) runInit(path string) bool {
	for _, p := range c.RunInit {
		if path == p {
			return true
		}
	}
	return false
}

var defaultSilence = []string{
	"github.com/sirupsen/logrus",
	modPath + "/common/logger",
	modPath + "/common/logger/infologger",
	modPath + "/common/monitoring",
	modPath + "/common/ecsmetrics",
	"github.com/k0kubun/pp",
	"github.com/teo/logrus-prefixed-formatter",
	"github.com/prometheus/client_golang",
	"log",
}

func defaultConfig() Config {
	return Config{Unwind: 16, MaxSteps: 2_000_000, MaxDepth: 200, MaxDecisions: 4000, MaxPaths: 200000, Preempt: 2,
		Timers: "lazy", MapOrderPerm: 0, SleepSets: true, SolverMs: 20000, Workers: 8, Raw: map[string]string{}}
}

// apply parses "key=value" options.
func (c *Config) apply(opts []string) error {
	for _, o := range opts {
		k, v, ok := strings.Cut(o, "=")
		if !ok {
			return fmt.Errorf("bad option %q", o)
		}
		c.Raw[k] = v
		atoi := func() int { n, _ := strconv.Atoi(v); return n }
		switch k {
		case "unwind":
			c.Unwind = atoi()
		case "steps":
			c.MaxSteps = atoi()
		case "depth":
			c.MaxDepth = atoi()
		case "decisions":
			c.MaxDecisions = atoi()
		case "paths":
			c.MaxPaths = atoi()
		case "preempt":
			c.Preempt = atoi()
		case "timers":
			c.Timers = v
		case "race":
			c.Race = v == "1" || v == "true"
		case "maporder":
			c.MapOrderPerm = atoi()
		case "conform":
			c.Conform = atoi()
		case "maporderin":
			c.MapOrderIn = append(c.MapOrderIn, strings.Split(v, ",")...)
		case "atomics":
			c.AtomicsVisible = v == "1" || v == "true" || v == "visible"
		case "nosched":
			c.NoSched = append(c.NoSched, strings.Split(v, ",")...)
		case "lazyarrive":
			c.LazyArrive = v == "1" || v == "true"
		case "sleepsets":
			c.SleepSets = v == "1" || v == "true"
		case "sleepbound":
			c.SleepBound = v == "1" || v == "true"
		case "deadlockok":
			c.DeadlockOK = v == "1" || v == "true"
		case "silence":
			c.Silence = append(c.Silence, strings.Split(v, ",")...)
		case "noinit":
			c.NoInit = append(c.NoInit, strings.Split(v, ",")...)
		case "runinit":
			c.RunInit = append(c.RunInit, strings.Split(v, ",")...)
		case "summarize":
			c.Summarize = append(c.Summarize, strings.Split(v, ",")...)
		case "replace":
			for _, kv := range strings.Split(v, ",") {
				a, b, ok := strings.Cut(kv, "=>")
				if !ok {
					return fmt.Errorf("replace wants from=>to, got %q", kv)
				}
				if c.Replace == nil {
					c.Replace = map[string]string{}
				}
				c.Replace[a] = b
			}
		case "stub":
			c.Stub = append(c.Stub, strings.Split(v, ",")...)
		case "reach":
			c.Reach = append(c.Reach, strings.Split(v, ",")...)
		case "solverms":
			c.SolverMs = atoi()
		case "workers":
			c.Workers = atoi()
		default:
			return fmt.Errorf("unknown option %q", k)
		}
	}
	return nil
}

// Engine holds the loaded program; it is shared (read-only) by all workers.
type Engine struct {
	cfg   Config
	prog  *ssa.Program
	fset  *token.FileSet
	pkgs  []*packages.Package
	entry *ssa.Function

	mu             sync.Mutex
	opaqueTypes    map[string]types.Type
	methodCache    sync.Map
	silenceList    []string
	known          []knownFinding
	noSchedGlobals []*ssa.Global
	replaceFns     map[string]*ssa.Function
	concreteInputs map[string]any
	errIface       *types.Interface
}

func (e *Engine) silenced(path string) bool {
	if path == "" {
		return false
	}
	for _, p := range e.silenceList {
		if path == p || strings.HasPrefix(path, p+"/") {
			return true
		}
	}
	return false
}

func (e *Engine) shortPos(p token.Pos) string {
	pos := e.fset.Position(p)
	f := pos.Filename
	if i := strings.Index(f, "/pkg/mod/"); i >= 0 {
		f = f[i+9:]
	}
	f = strings.TrimPrefix(f, repoRoot+"/")
	return fmt.Sprintf("%s:%d", f, pos.Line)
}

func (e *Engine) opaqueType(name string) types.Type {
	e.mu.Lock()
	defer e.mu.Unlock()
	if t, ok := e.opaqueTypes[name]; ok {
		return t
	}
	tn := types.NewTypeName(token.NoPos, nil, name, nil)
	t := types.NewNamed(tn, types.NewStruct(nil, nil), nil)
	e.opaqueTypes[name] = t
	return t
}

func (e *Engine) isOpaqueType(t types.Type) bool {
	n, ok := t.(*types.Named)
	if !ok {
		return false
	}
	e.mu.Lock()
	defer e.mu.Unlock()
	return e.opaqueTypes[n.Obj().Name()] == t
}

func (e *Engine) runtimeErrorType() types.Type { return e.opaqueType("runtime.Error") }

func (e *Engine) errorIface() *types.Interface {
	return types.Universe.Lookup("error").Type().Underlying().(*types.Interface)
}

func (e *Engine) implements(t types.Type, it *types.Interface) bool {
	if e.isOpaqueType(t) {
		return true
	}
	return types.Implements(t, it)
}

type methodKey struct {
	t    types.Type
	name string
	pkg  *types.Package
}

func (e *Engine) lookupMethod(t types.Type, m *types.Func) *ssa.Function {
	sel := e.prog.MethodSets.MethodSet(t).Lookup(m.Pkg(), m.Name())
	if sel == nil {
		return nil
	}
	return e.prog.MethodValue(sel)
}

func (e *Engine) lookupMethodByName(t types.Type, name string) *ssa.Function {
	if e.isOpaqueType(t) {
		return nil
	}
	ms := e.prog.MethodSets.MethodSet(t)
	for i := 0; i < ms.Len(); i++ {
		sel := ms.At(i)
		if sel.Obj().Name() == name && sel.Obj().Exported() {
			return e.prog.MethodValue(sel)
		}
	}
	return nil
}

// makeError builds a real *errors.errorString or *fmt.wrapError value.
func (e *Engine) makeError(w *World, msg Value, wrapped Value) Value {
	msg = normStr(msg)
	if wrapped != nil {
		fp := e.prog.ImportedPackage("fmt")
		if fp != nil {
			if tt := fp.Type("wrapError"); tt != nil {
				p := new(Value)
				*p = Struct{msg, wrapped}
				return Iface{t: types.NewPointer(tt.Type()), v: Ptr(p)}
			}
		}
	}
	ep := e.prog.ImportedPackage("errors")
	tt := ep.Type("errorString")
	p := new(Value)
	*p = Struct{msg}
	return Iface{t: types.NewPointer(tt.Type()), v: Ptr(p)}
}

func (e *Engine) externalFallback(w *World, fn *ssa.Function, args []Value) func() Value {
	return nil
}

// ---- loading ----------------------------------------------------------------------------------

type loadSpec struct {
	overlay  map[string][]byte
	patterns []string
}

func loadProgram(spec loadSpec) (*ssa.Program, []*packages.Package, *token.FileSet, error) {
	fset := token.NewFileSet()
	cfg := &packages.Config{
		Mode:       packages.LoadAllSyntax,
		Dir:        repoRoot,
		Fset:       fset,
		Overlay:    spec.overlay,
		BuildFlags: []string{"-tags=verif"},
		Env:        append(os.Environ(), "GOFLAGS=-mod=mod", "GOPROXY=off", "GOSUMDB=off", "GOTOOLCHAIN=local"),
	}
	pkgs, err := packages.Load(cfg, spec.patterns...)
	if err != nil {
		return nil, nil, nil, err
	}
	var errs []string
	packages.Visit(pkgs, nil, func(p *packages.Package) {
		for _, e := range p.Errors {
			errs = append(errs, e.Error())
		}
	})
	if len(errs) > 0 {
		sort.Strings(errs)
		if len(errs) > 20 {
			errs = errs[:20]
		}
		return nil, nil, nil, fmt.Errorf("package errors:\n%s", strings.Join(errs, "\n"))
	}
	prog, _ := ssautil.AllPackages(pkgs, ssa.InstantiateGenerics)
	return prog, pkgs, fset, nil
}

func findFunc(prog *ssa.Program, pkgs []*packages.Package, name string) *ssa.Function {
	for _, p := range pkgs {
		sp := prog.Package(p.Types)
		if sp == nil {
			continue
		}
		if f := sp.Func(name); f != nil {
			sp.Build()
			return f
		}
	}
	return nil
}

func mustAbs(p string) string {
	a, err := filepath.Abs(p)
	if err != nil {
		panic(err)
	}
	return a
}

// resolveReplace finds the harness functions named by replace= options.
func (e *Engine) resolveReplace() error {
	e.replaceFns = map[string]*ssa.Function{}
	for from, to := range e.cfg.Replace {
		f := findFunc(e.prog, e.pkgs, to)
		if f == nil {
			return fmt.Errorf("replace: harness function %q not found", to)
		}
		e.replaceFns[from] = f
	}
	return nil
}

// resolveNoSched maps the nosched= names to SSA globals.
func (e *Engine) resolveNoSched() error {
	for _, n := range e.cfg.NoSched {
		i := strings.LastIndex(n, ".")
		if i < 0 {
			return fmt.Errorf("nosched: bad name %q", n)
		}
		var g *ssa.Global
		for _, p := range e.prog.AllPackages() {
			if p.Pkg.Path() == n[:i] {
				g, _ = p.Members[n[i+1:]].(*ssa.Global)
			}
		}
		if g == nil {
			return fmt.Errorf("nosched: global %q not found", n)
		}
		e.noSchedGlobals = append(e.noSchedGlobals, g)
	}
	return nil
}
