package main

import (
	"bufio"
	"encoding/json"
	"flag"
	"fmt"
	"go/types"
	"os"
	"os/exec"
	"path/filepath"
	"regexp"
	"sort"
	"strings"
	"time"
)

// harnessFile is one Go file of a harness directory.
type harnessFile struct {
	path    string
	pkgDir  string // relative to /repo
	content []byte
	isTest  bool
}

type entrySpec struct {
	name     string
	file     *harnessFile
	common   []string
	quick    []string
	thorough []string
	onlyTier string // "" | quick | thorough
}

type propConfig struct {
	Property    string   `json:"property"`
	Level       string   `json:"level"`
	Explanation string   `json:"explanation"`
	Assumptions []string `json:"assumptions"`
	Outside     []string `json:"outside"`
}

type knownFinding struct {
	Property string `json:"property"`
	Entry    string `json:"entry"`
	Label    string `json:"label"`
	Kind     string `json:"kind,omitempty"`
	// WhenAny describes the listed failing inputs: a disjunction of conjunctions "input in {values}".
	// An input that does not exist on a path makes its conjunction false. Empty = every input.
	WhenAny []map[string][]int64 `json:"when_any,omitempty"`
	What    string               `json:"what"`
	Status  string               `json:"status"` // open | fixed
	Commit  string               `json:"commit,omitempty"`
}

type knownFile struct {
	Findings []knownFinding `json:"findings"`
}

func main() {
	if len(os.Args) < 2 {
		fmt.Fprintln(os.Stderr, "usage: gosym check|ssa ...")
		os.Exit(2)
	}
	switch os.Args[1] {
	case "check":
		os.Exit(cmdCheck(os.Args[2:]))
	default:
		fmt.Fprintln(os.Stderr, "unknown command", os.Args[1])
		os.Exit(2)
	}
}

var hookRe = regexp.MustCompile(`^//verif:hook\s+(\S+)\s+(\S+)`)

var hookSpecs []hookSpec

var nativeRe = regexp.MustCompile(`^//verif:native\s+(\S+)`)

type nativeTest struct {
	name string
	file *harnessFile
}

var nativeTests []nativeTest

var entryRe = regexp.MustCompile(`^//verif:(entry|quick|thorough|only)\s+(\S+)\s*(.*)$`)

func parseHarnessDir(dir string) ([]*harnessFile, []*entrySpec, error) {
	ents, err := os.ReadDir(dir)
	if err != nil {
		return nil, nil, err
	}
	var files []*harnessFile
	var entries []*entrySpec
	byName := map[string]*entrySpec{}
	var paths []string
	for _, de := range ents {
		if strings.HasSuffix(de.Name(), ".go") {
			paths = append(paths, filepath.Join(dir, de.Name()))
		}
	}
	// shared set-up files: one path per line in include.txt, relative to the harness directory
	if inc, err := os.ReadFile(filepath.Join(dir, "include.txt")); err == nil {
		for _, l := range strings.Split(string(inc), "\n") {
			l = strings.TrimSpace(l)
			if l != "" && !strings.HasPrefix(l, "#") {
				paths = append(paths, filepath.Join(dir, l))
			}
		}
	}
	for _, p := range paths {
		de := fakeDirEntry(filepath.Base(p))
		b, err := os.ReadFile(p)
		if err != nil {
			return nil, nil, err
		}
		hf := &harnessFile{path: p, content: b, isTest: strings.HasSuffix(de.Name(), "_test.go")}
		sc := bufio.NewScanner(strings.NewReader(string(b)))
		sc.Buffer(make([]byte, 1<<20), 1<<20)
		for sc.Scan() {
			line := strings.TrimSpace(sc.Text())
			if strings.HasPrefix(line, "//verif:pkg ") {
				hf.pkgDir = strings.TrimSpace(strings.TrimPrefix(line, "//verif:pkg "))
			}
			if m := hookRe.FindStringSubmatch(line); m != nil {
				dup := false
				for _, h := range hookSpecs {
					if h.dir == m[1] && h.name == m[2] {
						dup = true
					}
				}
				if !dup {
					hookSpecs = append(hookSpecs, hookSpec{dir: m[1], name: m[2]})
				}
			}
			if m := nativeRe.FindStringSubmatch(line); m != nil {
				nativeTests = append(nativeTests, nativeTest{name: m[1], file: hf})
			}
			if m := entryRe.FindStringSubmatch(line); m != nil {
				es := byName[m[2]]
				if es == nil {
					es = &entrySpec{name: m[2], file: hf}
					byName[m[2]] = es
					entries = append(entries, es)
				}
				opts := strings.Fields(m[3])
				switch m[1] {
				case "entry":
					es.common = append(es.common, opts...)
					es.file = hf
				case "quick":
					es.quick = append(es.quick, opts...)
				case "thorough":
					es.thorough = append(es.thorough, opts...)
				case "only":
					if len(opts) > 0 {
						es.onlyTier = opts[0]
					}
				}
			}
		}
		if hf.pkgDir == "" {
			return nil, nil, fmt.Errorf("%s: missing //verif:pkg directive", p)
		}
		files = append(files, hf)
	}
	return files, entries, nil
}

func pkgNameOf(content []byte) string {
	sc := bufio.NewScanner(strings.NewReader(string(content)))
	for sc.Scan() {
		l := strings.TrimSpace(sc.Text())
		if strings.HasPrefix(l, "package ") {
			return strings.Fields(l)[1]
		}
	}
	return ""
}

type fakeDirEntry string

func (f fakeDirEntry) Name() string { return string(f) }

type overlaySet struct {
	mem   map[string][]byte // for go/packages
	files map[string]string // virtual path -> real path (for go test -overlay)
	tmp   string
}

func buildOverlay(prop string, files []*harnessFile, entries []*entrySpec, vrtPath string) (*overlaySet, error) {
	tmp, err := os.MkdirTemp("", "gosym-"+prop+"-")
	if err != nil {
		return nil, err
	}
	ov := &overlaySet{mem: map[string][]byte{}, files: map[string]string{}, tmp: tmp}
	vb, err := os.ReadFile(vrtPath)
	if err != nil {
		return nil, err
	}
	ov.mem[repoRoot+"/zz_vrt/vrt.go"] = vb
	ov.files[repoRoot+"/zz_vrt/vrt.go"] = vrtPath
	testsByPkg := map[string][]string{}
	pkgName := map[string]string{}
	for _, hf := range files {
		base := strings.TrimSuffix(filepath.Base(hf.path), ".go")
		if d := filepath.Base(filepath.Dir(hf.path)); !strings.EqualFold(d, prop) {
			base = strings.ToLower(strings.TrimPrefix(d, "_")) + "_" + base // included from another harness directory
		}
		virt := fmt.Sprintf("%s/%s/zz_verif_%s_%s.go", repoRoot, hf.pkgDir, strings.ToLower(prop), base)
		if hf.isTest {
			virt = fmt.Sprintf("%s/%s/zz_verif_%s_%s", repoRoot, hf.pkgDir, strings.ToLower(prop), filepath.Base(hf.path))
		}
		ov.mem[virt] = hf.content
		ov.files[virt] = hf.path
		if !hf.isTest {
			pkgName[hf.pkgDir] = pkgNameOf(hf.content)
		}
	}
	for _, es := range entries {
		testsByPkg[es.file.pkgDir] = append(testsByPkg[es.file.pkgDir], es.name)
	}
	for dir, names := range testsByPkg {
		var sb strings.Builder
		sb.WriteString("//go:build verif\n\npackage " + pkgName[dir] + "\n\nimport (\n\t\"testing\"\n\tvrt \"" + modPath + "/zz_vrt\"\n)\n\n")
		for _, n := range names {
			fmt.Fprintf(&sb, "func TestVerif%s(t *testing.T) { vrt.Run(t, %s) }\n", n, n)
		}
		real := filepath.Join(tmp, strings.ReplaceAll(dir, "/", "_")+"_zz_verif_test.go")
		if err := os.WriteFile(real, []byte(sb.String()), 0o644); err != nil {
			return nil, err
		}
		virt := fmt.Sprintf("%s/%s/zz_verif_%s_gen_test.go", repoRoot, dir, strings.ToLower(prop))
		ov.files[virt] = real
	}
	return ov, nil
}

func (ov *overlaySet) writeJSON() (string, error) {
	p := filepath.Join(ov.tmp, "overlay.json")
	b, _ := json.MarshalIndent(map[string]any{"Replace": ov.files}, "", " ")
	return p, os.WriteFile(p, b, 0o644)
}

var nativeTier = "quick"

// nativeConform re-runs completed sample paths natively (inputs = the solver's model of each path) and compares
// the outcome with what the interpreter saw: the harness must complete without a failed assertion, and on paths
// without scheduler decisions it must reach the same labels. Returns (compared, mismatches).
func nativeConform(ov *overlaySet, es *entrySpec, listPath string, samples []PathSample, timeout time.Duration) (int, []string) {
	ovj, err := ov.writeJSON()
	if err != nil {
		return 0, []string{"conformance: " + err.Error()}
	}
	args := []string{"test", "-tags", "verif", "-vet=off", "-count=1", "-overlay", ovj, "-run", "^TestVerif" + es.name + "$", "-timeout", fmt.Sprintf("%ds", int(timeout.Seconds())), "-v", "./" + es.file.pkgDir}
	cmd := exec.Command("go", args...)
	cmd.Dir = repoRoot
	cmd.Env = append(os.Environ(), "GOFLAGS=-mod=mod", "GOPROXY=off", "GOSUMDB=off", "GOTOOLCHAIN=local", "VERIF_CEX_LIST="+listPath, "VERIF_TIER="+nativeTier)
	out, _ := cmd.CombinedOutput()
	got := map[int][2]string{}
	for _, l := range strings.Split(string(out), "\n") {
		l = strings.TrimSpace(l)
		if !strings.HasPrefix(l, "VERIF-CONF ") {
			continue
		}
		rest := strings.TrimPrefix(l, "VERIF-CONF ")
		sp := strings.IndexByte(rest, ' ')
		if sp < 0 {
			continue
		}
		var idx int
		fmt.Sscan(rest[:sp], &idx)
		rest = rest[sp+1:]
		ri := strings.LastIndex(rest, " reach=")
		if ri < 0 {
			continue
		}
		got[idx] = [2]string{rest[:ri], rest[ri+len(" reach="):]}
	}
	var mism []string
	compared := 0
	for i, s := range samples {
		g, ok := got[i]
		if !ok {
			mism = append(mism, fmt.Sprintf("conformance: sample %d (%s) produced no native result: %s", i, s.Decisions, lastLines(string(out), 8)))
			break
		}
		compared++
		if g[0] != "OK" {
			mism = append(mism, fmt.Sprintf("conformance: sample %d inputs=%v: interpreter completed the path, native run ended %s", i, s.Inputs, g[0]))
			continue
		}
		if !strings.Contains(s.Decisions, "s") && g[1] != strings.Join(s.Reached, ",") {
			mism = append(mism, fmt.Sprintf("conformance: sample %d inputs=%v: interpreter reached [%s], native run reached [%s]", i, s.Inputs, strings.Join(s.Reached, ","), g[1]))
		}
	}
	return compared, mism
}

// nativeReplay runs the harness natively on a counterexample. Returns (reproduced, output).
func nativeReplay(ov *overlaySet, es *entrySpec, cexPath string, want *Violation, timeout time.Duration) (string, string) {
	race := want != nil && want.Kind == "race"
	ovj, err := ov.writeJSON()
	if err != nil {
		return "error", err.Error()
	}
	args := []string{"test", "-tags", "verif", "-vet=off", "-count=1", "-overlay", ovj, "-run", "^TestVerif" + es.name + "$", "-timeout", fmt.Sprintf("%ds", int(timeout.Seconds())), "-v"}
	if race {
		args = append(args, "-race")
	}
	args = append(args, "./"+es.file.pkgDir)
	cmd := exec.Command("go", args...)
	cmd.Dir = repoRoot
	cmd.Env = append(os.Environ(), "GOFLAGS=-mod=mod", "GOPROXY=off", "GOSUMDB=off", "GOTOOLCHAIN=local", "VERIF_CEX="+cexPath, "VERIF_TIER="+nativeTier)
	out, err := cmd.CombinedOutput()
	s := string(out)
	switch {
	case strings.Contains(s, "VERIF-ASSERT panic"):
		// a native panic reproduces a panic found by the interpreter, not a failed assertion (it would rather mean
		// that the harness does not run natively the way it does under the interpreter)
		if want == nil || want.Kind == "panic" {
			return "reproduced", s
		}
		return "native-panic-instead-of-" + want.Kind, s
	case strings.Contains(s, "VERIF-ASSERT"):
		if want == nil || (want.Kind == "assert" && strings.Contains(s, "VERIF-ASSERT "+want.Label)) {
			return "reproduced", s
		}
		return "other-assertion-failed-natively", s
	case strings.Contains(s, "VERIF-OK"):
		return "not-reproduced", s
	case strings.Contains(s, "VERIF-ASSUME"):
		return "assume-failed", s
	case strings.Contains(s, "fatal error: concurrent map") || strings.Contains(s, "WARNING: DATA RACE"):
		return "reproduced", s
	case strings.Contains(s, "fatal error: sync:") && (want == nil || want.Kind == "panic"):
		// misuse of a lock (unlock of an unlocked mutex, ...) kills the process natively; the interpreter reports it as a panic
		return "reproduced", s
	case strings.Contains(s, "panic:") && err != nil:
		return "reproduced", s
	case strings.Contains(s, "test timed out") || strings.Contains(s, "all goroutines are asleep"):
		return "reproduced-hang", s
	}
	if err != nil {
		return "error", s
	}
	return "not-reproduced", s
}

func jsonSafeInputs(in map[string]any) map[string]any {
	out := map[string]any{}
	for k, v := range in {
		switch x := v.(type) {
		case uint64:
			if x > 1<<53 {
				out[k] = fmt.Sprint(x)
			} else {
				out[k] = x
			}
		case int64:
			if x > 1<<53 || x < -(1<<53) {
				out[k] = fmt.Sprint(x)
			} else {
				out[k] = x
			}
		case float64:
			out[k] = x
		default:
			out[k] = v
		}
	}
	return out
}

type entryOut struct {
	es  *entrySpec
	res *Result
	cfg Config
}

func cmdCheck(args []string) int {
	fs := flag.NewFlagSet("check", flag.ExitOnError)
	prop := fs.String("prop", "", "property id")
	hdir := fs.String("harness", "", "harness directory")
	tier := fs.String("tier", "quick", "quick|thorough")
	evid := fs.String("evidence", "", "evidence file to write")
	only := fs.String("entry", "", "run only this entry")
	known := fs.String("known", "/verif/known_findings.json", "known findings file")
	vrtPath := fs.String("vrt", "/verif/rt/vrt.go", "vrt runtime source")
	budget := fs.Duration("budget", 0, "wall budget per entry (default 10m quick, 60m thorough)")
	noReplay := fs.Bool("noreplay", false, "skip native replay (debug)")
	replayPath := fs.String("replay", "", "replay this counterexample file natively and exit")
	verbose := fs.Bool("v", false, "verbose")
	fs.Parse(args)
	if v := os.Getenv("VERIF_TIER"); v != "" && !flagSet(fs, "tier") {
		*tier = v
	}
	t0 := time.Now()
	seed := 0
	fmt.Sscan(os.Getenv("VERIF_SEED"), &seed)
	if *budget == 0 {
		*budget = 10 * time.Minute
		if *tier == "thorough" {
			*budget = 60 * time.Minute
		}
	}
	fail := func(msg string) int {
		fmt.Println("INCONCLUSIVE property=" + *prop + " " + msg)
		return 2
	}
	*hdir = mustAbs(*hdir)
	files, entries, err := parseHarnessDir(*hdir)
	if err != nil {
		return fail(err.Error())
	}
	var pc propConfig
	if b, err := os.ReadFile(filepath.Join(*hdir, "config.json")); err == nil {
		if err := json.Unmarshal(b, &pc); err != nil {
			return fail("config.json: " + err.Error())
		}
	}
	if pc.Level == "" {
		pc.Level = "other"
	}
	var kf knownFile
	if b, err := os.ReadFile(*known); err == nil {
		if err := json.Unmarshal(b, &kf); err != nil {
			return fail("known findings: " + err.Error())
		}
	}
	ov, err := buildOverlay(*prop, files, entries, *vrtPath)
	if err != nil {
		return fail(err.Error())
	}
	defer os.RemoveAll(ov.tmp)
	if len(hookSpecs) > 0 {
		hooked, err := applyHooks(hookSpecs)
		if err != nil {
			return fail(err.Error())
		}
		i := 0
		for p, content := range hooked {
			real := filepath.Join(ov.tmp, fmt.Sprintf("hooked_%d_%s", i, filepath.Base(p)))
			i++
			if err := os.WriteFile(real, content, 0o644); err != nil {
				return fail(err.Error())
			}
			ov.mem[p] = content
			ov.files[p] = real
		}
	}
	if *replayPath != "" {
		b, err := os.ReadFile(*replayPath)
		if err != nil {
			return fail(err.Error())
		}
		var v Violation
		if err := json.Unmarshal(b, &v); err != nil {
			return fail(err.Error())
		}
		nativeTier = *tier
		if v.Tier != "" { // the tier of the run that found it decides which inputs the harness admits
			nativeTier = v.Tier
		}
		for _, es := range entries {
			if es.name == v.Harness {
				status, out := nativeReplay(ov, es, mustAbs(*replayPath), &v, 300*time.Second)
				fmt.Println(lastLines(out, 30))
				fmt.Printf("REPLAY property=%s entry=%s label=%q status=%s\n", *prop, es.name, v.Label, status)
				if status == "reproduced" || status == "reproduced-hang" {
					fmt.Printf("VIOLATION property=%s replay=%s\n", *prop, *replayPath)
					return 1
				}
				return 0
			}
		}
		return fail("replay: harness entry not found: " + v.Harness)
	}
	// load all harness packages at once
	pat := map[string]bool{}
	for _, hf := range files {
		pat["./"+hf.pkgDir] = true
	}
	var patterns []string
	for p := range pat {
		patterns = append(patterns, p)
	}
	sort.Strings(patterns)
	tl := time.Now()
	prog, pkgs, fset, err := loadProgram(loadSpec{overlay: ov.mem, patterns: patterns})
	if err != nil {
		return fail("load: " + err.Error())
	}
	loadT := time.Since(tl)
	if *verbose {
		fmt.Fprintf(os.Stderr, "loaded %v in %v\n", patterns, loadT)
	}

	var outs []entryOut
	exit := 0
	// native validation of harness models (e.g. a Go model of a reflection-based library call is compared
	// with the real library over an exhaustive small domain) - on every run, before anything is claimed
	var modelFailures []string
	nativeRuns := 0
	if *only == "" {
		for _, nt := range nativeTests {
			ovj, _ := ov.writeJSON()
			cmd := exec.Command("go", "test", "-tags", "verif", "-vet=off", "-count=1", "-overlay", ovj, "-run", "^"+nt.name+"$", "-v", "./"+nt.file.pkgDir)
			cmd.Dir = repoRoot
			cmd.Env = append(os.Environ(), "GOFLAGS=-mod=mod", "GOPROXY=off", "GOSUMDB=off", "GOTOOLCHAIN=local")
			out, err := cmd.CombinedOutput()
			nativeRuns++
			if err != nil || !strings.Contains(string(out), "--- PASS: "+nt.name) {
				modelFailures = append(modelFailures, fmt.Sprintf("native model validation %s failed: %s", nt.name, lastLines(string(out), 12)))
			} else if *verbose {
				fmt.Fprintf(os.Stderr, "native validation %s: PASS\n", nt.name)
			}
		}
	}
	var knownLines, violationLines []string
	conformed := 0
	nativeTier = *tier
	totalViol := 0
	replays := 0
	cexDir := "/verif/evidence/cex"
	if *evid != "" {
		cexDir = filepath.Join(filepath.Dir(mustAbs(*evid)), "cex")
	}
	os.MkdirAll(cexDir, 0o755)

	for _, es := range entries {
		if *only != "" && es.name != *only {
			continue
		}
		if es.onlyTier != "" && es.onlyTier != *tier {
			continue
		}
		cfg := defaultConfig()
		cfg.Entry = es.name
		cfg.PkgDir = es.file.pkgDir
		cfg.Tier = *tier
		cfg.SleepBound = true // the reduction respects the pre-emption bound (DESIGN.md 2.6); "sleepbound=0" on an entry opts out
		if err := cfg.apply(es.common); err != nil {
			return fail(err.Error())
		}
		tierOpts := es.quick
		if *tier == "thorough" {
			tierOpts = es.thorough
		}
		if err := cfg.apply(tierOpts); err != nil {
			return fail(err.Error())
		}
		if v := os.Getenv("GOSYM_WORKERS"); v != "" {
			fmt.Sscan(v, &cfg.Workers)
		}
		eng := &Engine{cfg: cfg, prog: prog, fset: fset, pkgs: pkgs, opaqueTypes: map[string]types.Type{}}
		eng.silenceList = append(append([]string{}, defaultSilence...), cfg.Silence...)
		eng.entry = findFunc(prog, pkgs, es.name)
		if eng.entry == nil {
			return fail("entry function not found: " + es.name)
		}
		if err := eng.resolveNoSched(); err != nil {
			return fail(err.Error())
		}
		if err := eng.resolveReplace(); err != nil {
			return fail(err.Error())
		}
		for _, k := range kf.Findings {
			if k.Property == *prop && k.Entry == es.name && k.Status == "open" {
				eng.known = append(eng.known, k)
			}
		}
		res := eng.explore(time.Now().Add(*budget))
		outs = append(outs, entryOut{es, res, cfg})
		if *verbose {
			fmt.Fprintf(os.Stderr, "[%s] paths=%d ends=%v nodes=%d queries=%d solver=%.1fs wall=%.1fs viol=%d inconc=%v\n", es.name, res.Paths, res.EndKinds, res.TreeNodes, res.Queries, res.SolverTime.Seconds(), res.Wall.Seconds(), len(res.Violations), res.Inconclusive)
		}
		// vacuity
		for _, l := range cfg.Reach {
			if res.Reached[l] == 0 && len(res.Violations) == 0 {
				res.Inconclusive = append(res.Inconclusive, "vacuous: label never reached: "+l)
			}
		}
		if res.EndKinds["done"] == 0 && len(res.Violations) == 0 {
			res.Inconclusive = append(res.Inconclusive, "vacuous: no path reaches the end of the harness (assert(false) twin not violated)")
		}
		// conformance of completed sample paths with the real build
		if cfg.Conform > 0 && len(res.Violations) == 0 && !*noReplay {
			var picked []PathSample
			var list []map[string]any
			for _, s := range res.Samples {
				if s.End == "done" && s.ModelOK && len(picked) < cfg.Conform {
					picked = append(picked, s)
					list = append(list, map[string]any{"harness": es.name, "kind": "conform", "inputs": jsonSafeInputs(s.Inputs)})
				}
			}
			if len(picked) > 0 {
				listPath := filepath.Join(cexDir, fmt.Sprintf("%s-%s-conform.json", *prop, es.name))
				b, _ := json.MarshalIndent(list, "", " ")
				os.WriteFile(listPath, b, 0o644)
				n, mism := nativeConform(ov, es, listPath, picked, 600*time.Second)
				conformed += n - len(mism)
				res.Conformed = n - len(mism)
				if *verbose {
					fmt.Fprintf(os.Stderr, "[%s] conformance: %d sample paths re-run natively, %d mismatches\n", es.name, n, len(mism))
				}
				res.Inconclusive = append(res.Inconclusive, mism...)
			}
		}
		// violations: replay
		for i, v := range res.Violations {
			cexPath := filepath.Join(cexDir, fmt.Sprintf("%s-%s-%d.json", *prop, es.name, i))
			v.Inputs = jsonSafeInputs(v.Inputs)
			b, _ := json.MarshalIndent(v, "", " ")
			os.WriteFile(cexPath, b, 0o644)
			status := "skipped"
			out := ""
			if !*noReplay {
				status, out = nativeReplay(ov, es, cexPath, v, 120*time.Second)
				replays++
				if status != "reproduced" && status != "reproduced-hang" && len(v.Sched) > 0 {
					// schedule-dependent: retry a few times natively, then fall back to the
					// deterministic concrete re-execution in the interpreter
					for k := 0; k < 3 && status != "reproduced"; k++ {
						status, out = nativeReplay(ov, es, cexPath, v, 120*time.Second)
						replays++
					}
					if status != "reproduced" {
						if eng.concreteReplay(v) {
							status = "reproduced-in-interpreter"
						}
					}
				}
			}
			if *verbose || (status != "reproduced" && status != "reproduced-in-interpreter") {
				fmt.Fprintf(os.Stderr, "[%s] violation %s %q replay=%s\n", es.name, v.Kind, v.Label, status)
				if status != "reproduced" && status != "skipped" {
					fmt.Fprintln(os.Stderr, lastLines(out, 25))
				}
			}
			if v.Notes == nil {
				v.Notes = map[string]string{}
			}
			v.Notes["replay"] = status
			b, _ = json.MarshalIndent(v, "", " ")
			os.WriteFile(cexPath, b, 0o644)
			switch status {
			case "reproduced", "reproduced-in-interpreter", "reproduced-hang", "skipped":
				if v.Known != "" {
					knownLines = append(knownLines, fmt.Sprintf("KNOWN-FINDING: property=%s %s", *prop, v.Known))
				} else {
					totalViol++
					violationLines = append(violationLines, fmt.Sprintf("VIOLATION property=%s replay=%s", *prop, cexPath))
					fmt.Fprintf(os.Stderr, "  violation in %s: %s %q inputs=%v\n", es.name, v.Kind, v.Label, v.Inputs)
				}
			default:
				res.Inconclusive = append(res.Inconclusive, fmt.Sprintf("cex-not-reproduced: %s %q (%s)", v.Kind, v.Label, status))
			}
		}
	}
	// evidence
	ev := buildEvidence(*prop, *tier, seed, pc, outs, loadT, time.Since(t0), totalViol, replays+nativeRuns+conformed, knownLines)
	if *evid != "" {
		os.MkdirAll(filepath.Dir(*evid), 0o755)
		b, _ := json.MarshalIndent(ev, "", " ")
		if err := os.WriteFile(*evid, b, 0o644); err != nil {
			return fail("cannot write evidence: " + err.Error())
		}
	}
	sort.Strings(knownLines)
	knownLines = uniq(knownLines)
	for _, l := range knownLines {
		fmt.Println(l)
	}
	if totalViol > 0 {
		for _, l := range violationLines {
			fmt.Println(l)
		}
		return 1
	}
	inconc := false
	for _, m := range modelFailures {
		fmt.Printf("INCONCLUSIVE property=%s %s\n", *prop, m)
		inconc = true
	}
	for _, o := range outs {
		for _, m := range o.res.Inconclusive {
			fmt.Printf("INCONCLUSIVE property=%s entry=%s %s\n", *prop, o.es.name, m)
			inconc = true
		}
	}
	if inconc {
		return 2
	}
	for _, o := range outs {
		fmt.Printf("OK property=%s entry=%s paths=%d nodes=%d queries=%d solver_s=%.1f wall_s=%.1f\n", *prop, o.es.name, o.res.Paths, o.res.TreeNodes, o.res.Queries, o.res.SolverTime.Seconds(), o.res.Wall.Seconds())
	}
	return exit
}

func uniq(s []string) []string {
	var out []string
	for i, x := range s {
		if i == 0 || x != s[i-1] {
			out = append(out, x)
		}
	}
	return out
}

func lastLines(s string, n int) string {
	lines := strings.Split(strings.TrimRight(s, "\n"), "\n")
	if len(lines) > n {
		lines = lines[len(lines)-n:]
	}
	return strings.Join(lines, "\n")
}

func flagSet(fs *flag.FlagSet, name string) bool {
	found := false
	fs.Visit(func(f *flag.Flag) {
		if f.Name == name {
			found = true
		}
	})
	return found
}
