package main

import (
	"fmt"
	"golang.org/x/tools/go/packages"
	"golang.org/x/tools/go/ssa"
	"golang.org/x/tools/go/ssa/ssautil"
	"os"
	"time"
)

func main() {
	t0 := time.Now()
	cfg := &packages.Config{Mode: packages.LoadAllSyntax, Dir: "/repo", Env: append(os.Environ(), "GOFLAGS=-mod=mod", "GOPROXY=off", "GOSUMDB=off")}
	pkgs, err := packages.Load(cfg, os.Args[1:]...)
	if err != nil {
		panic(err)
	}
	fmt.Println("loaded", len(pkgs), time.Since(t0))
	packages.PrintErrors(pkgs)
	prog, spkgs := ssautil.AllPackages(pkgs, ssa.InstantiateGenerics)
	for _, p := range spkgs {
		if p != nil {
			p.Build()
		}
	}
	fmt.Println("built", time.Since(t0), len(prog.AllPackages()))
}
