package main

import (
	"fmt"
	"go/token"
	"go/types"
	"strings"

	"golang.org/x/tools/go/ssa"
)

type deferred struct {
	fn    Value
	args  []Value
	instr *ssa.Defer
}

type frame struct {
	fn        *ssa.Function
	block     *ssa.BasicBlock
	prevBlock *ssa.BasicBlock
	pc        int
	env       map[ssa.Value]Value
	defers    []*deferred
	result    Value
	panicking bool
	panicVal  Value
	// cont is called with the result when the frame returns normally.
	cont func(res Value)
	// state of defer execution
	inRunDefers bool // executing a RunDefers instruction (normal path)
	unwinding   bool // running defers because of a panic
	caller      *frame
	isDeferCall bool
	callSite    ssa.Instruction
}

func (fr *frame) posString(e *Engine) string {
	if fr.block != nil && fr.pc < len(fr.block.Instrs) {
		for i := fr.pc; i >= 0; i-- {
			if p := fr.block.Instrs[i].Pos(); p.IsValid() {
				return " @" + e.shortPos(p)
			}
		}
	}
	if fr.fn.Pos().IsValid() {
		return " @" + e.shortPos(fr.fn.Pos())
	}
	return ""
}

type opKind int

const (
	opNone opKind = iota
	opYield
	opSend
	opRecv
	opSelect
	opLock
	opRLock
	opWGWait
	opCondWait   // parked until signalled
	opCondReacq  // signalled, must re-acquire the mutex
	opOnceWait   // waiting for a running Once to finish
	opSleepUntil // never enabled (blocked forever), e.g. nil channel
)

type selCase struct {
	send bool
	ch   *Chan
	val  Value
}

type pendingOp struct {
	kind   opKind
	ch     *Chan
	val    Value
	cases  []selCase
	deflt  bool
	so     *syncObj
	so2    *syncObj
	reader bool // RLock/RUnlock: commutes with other reader operations on the same object
	// complete finishes the instruction on behalf of the thread (stores result, advances pc)
	complete func(res Value)
	desc     string
}

type Thread struct {
	id      int
	frames  []*frame
	done    bool
	pending *pendingOp
	granted bool
	retry   func()
	started bool
	ranOp   bool // a granted visible operation has just been executed
	sync    bool // synchronous nested execution (callSync)
	result  Value
	vc      []int
	name    string
	crashed bool
}

func (th *Thread) top() *frame {
	if len(th.frames) == 0 {
		return nil
	}
	return th.frames[len(th.frames)-1]
}

// ---- frames & calls ---------------------------------------------------------------------------

func (w *World) pushFrame(th *Thread, fn *ssa.Function, args []Value, env []Value, cont func(Value), site ssa.Instruction) *frame {
	// Always go through Package.Build (a sync.Once): fn.Blocks is assigned while another worker's builder is still
	// lifting and optimising the function, so "Blocks != nil" does not mean "built" (a half-built body has nil
	// instructions in it - seen once as an engine panic from a cold build cache).
	if fn.Pkg != nil {
		fn.Pkg.Build()
	}
	if fn.Blocks == nil {
		panic(w.unsupported("call to function without body: %s", fn.String()))
	}
	if len(th.frames) > w.eng.cfg.MaxDepth {
		panic(pathEnd{kind: "budget", msg: "max call depth in " + fn.String()})
	}
	if !w.funcsSeen[fn] {
		w.funcsSeen[fn] = true
	}
	fr := &frame{fn: fn, block: fn.Blocks[0], env: make(map[ssa.Value]Value, 16), cont: cont, caller: th.top(), callSite: site}
	if len(args) != len(fn.Params) {
		panic(w.unsupported("arity mismatch calling %s: %d args for %d params", fn, len(args), len(fn.Params)))
	}
	for i, p := range fn.Params {
		fr.env[p] = args[i]
	}
	for i, fv := range fn.FreeVars {
		fr.env[fv] = env[i]
	}
	th.frames = append(th.frames, fr)
	return fr
}

func (w *World) popFrame(th *Thread) *frame {
	fr := th.top()
	th.frames = th.frames[:len(th.frames)-1]
	return fr
}

// get evaluates an SSA operand in frame fr.
func (w *World) get(fr *frame, v ssa.Value) Value {
	switch v := v.(type) {
	case *ssa.Const:
		return w.constValue(v)
	case *ssa.Global:
		return w.globalAddr(v)
	case *ssa.Function:
		return v
	case *ssa.Builtin:
		return v
	}
	if r, ok := fr.env[v]; ok {
		return r
	}
	panic(w.unsupported("get: no value for %T %s in %s", v, v.Name(), fr.fn))
}

// callSync runs fn to completion on a temporary thread (no blocking allowed).
func (w *World) callSync(fn *ssa.Function, args []Value) Value {
	return w.callValueSync(fn, args)
}

func (w *World) callValueSync(fv Value, args []Value) Value {
	th := &Thread{id: -1, sync: true, name: "sync"}
	if w.cur != nil {
		th.id = w.cur.id
		th.vc = w.cur.vc
	}
	saved := w.cur
	w.cur = th
	defer func() { w.cur = saved }()
	done := false
	var result Value
	w.invokeValue(th, fv, args, func(res Value) { done = true; result = res }, nil)
	for !done {
		if len(th.frames) == 0 {
			if th.crashed {
				panic(goPanic{w.panicMessage(th.result)})
			}
			break
		}
		st := w.runThread(th)
		if st == stopPending {
			panic(w.unsupported("blocking operation inside synchronous call (%s)", th.pending.desc))
		}
	}
	return result
}

// invokeValue calls a function value (Function, Closure, Builtin) with args.
func (w *World) invokeValue(th *Thread, fv Value, args []Value, cont func(Value), site ssa.Instruction) {
	switch f := fv.(type) {
	case *ssa.Function:
		if f == nil {
			panic(goPanic{"runtime error: invalid memory address or nil pointer dereference (nil func)"})
		}
		w.callFunction(th, f, args, nil, cont, site)
	case *Closure:
		if f == nil {
			panic(goPanic{"runtime error: invalid memory address or nil pointer dereference (nil func)"})
		}
		w.callFunction(th, f.fn, args, f.env, cont, site)
	case *ssa.Builtin:
		cont(w.callBuiltin(th, f, args, site))
	case *NativeFn:
		res := f.f(w, th, args)
		if _, ok := res.(blockedT); ok {
			return
		}
		cont(res)
	case Ptr:
		if f == nil {
			panic(goPanic{"runtime error: invalid memory address or nil pointer dereference (nil func)"})
		}
		panic(w.unsupported("call of pointer value"))
	default:
		panic(w.unsupported("call of %T", fv))
	}
}

// callFunction dispatches to an intrinsic, a silenced stub or pushes an SSA frame.
func (w *World) callFunction(th *Thread, fn *ssa.Function, args []Value, env []Value, cont func(Value), site ssa.Instruction) {
	name := fn.String()
	if o := fn.Origin(); o != nil {
		name = o.String()
	}
	if len(w.eng.replaceFns) > 0 {
		if rf, ok := w.eng.replaceFns[name]; ok && rf != fn {
			w.stubsSeen["replaced:"+name+"=>"+rf.Name()] = true
			w.pushFrame(th, rf, args, nil, cont, site)
			return
		}
	}
	if in, ok := intrinsics[name]; ok {
		res := in(w, th, fn, args)
		if _, ok := res.(blockedT); ok {
			// the thread stopped at a visible operation; the instruction is re-executed when granted
			return
		}
		if _, ok := res.(notHandledT); ok {
			goto interpret
		}
		if pf, ok := res.(pushCall); ok {
			w.invokeValue(th, pf.fn, pf.args, func(r Value) {
				if pf.then != nil {
					r = pf.then(r)
				}
				cont(r)
			}, site)
			return
		}
		cont(res)
		return
	}
interpret:
	if len(w.eng.cfg.Summarize) > 0 && w.eng.cfg.summarized(name) && !w.inSummary[fn] {
		w.inSummary[fn] = true
		var fv Value = fn
		if env != nil {
			fv = &Closure{fn: fn, env: env}
		}
		res, ok := w.summarize(fn, fv, args)
		delete(w.inSummary, fn)
		if ok {
			w.stubsSeen["summarised:"+name] = true
			cont(res)
			return
		}
	}
	if len(w.eng.cfg.Stub) > 0 && w.eng.cfg.stubbed(name) {
		w.stubsSeen["zero-stub:"+name] = true
		cont(zeroResults(fn.Signature))
		return
	}
	pkg := funcPkgPath(fn)
	if pkg == "sync" && fn.Signature.Recv() != nil && fn.Synthetic == "" && !strings.Contains(name, "sync.Map)") && !strings.Contains(name, "sync.Pool)") && !strings.Contains(name, "$") {
		// the synchronisation primitives are modelled, never interpreted from their runtime-dependent source
		panic(w.unsupported("unsupported-call %s (synchronisation primitive without a model)", name))
	}
	if w.eng.silenced(pkg) {
		w.stubsSeen["silenced:"+pkg] = true
		cont(silencedResults(fn.Signature))
		return
	}
	if envPkgs[pkg] && len(th.frames) > 0 && isPkgInit(th.frames[0].fn) {
		// environment access while initialising package-level variables: opaque zero result
		w.stubsSeen["init-env-zero:"+name] = true
		cont(zeroResults(fn.Signature))
		return
	}
	if fn.Pkg != nil {
		fn.Pkg.Build() // see pushFrame: never look at fn.Blocks before the package's build has completed
	}
	if fn.Blocks == nil {
		if h := w.eng.externalFallback(w, fn, args); h != nil {
			cont(h())
			return
		}
		panic(w.unsupported("unsupported-call %s (no body)", name))
	}
	if isPkgInit(fn) && th.top() != nil {
		// an init calling the inits of its imports: packages are initialised lazily, on first
		// access to one of their globals
		cont(nil)
		return
	}
	if isExplicitInit(fn) && !w.eng.cfg.runInit(fn.Pkg.Pkg.Path()) {
		cont(nil)
		return
	}
	w.pushFrame(th, fn, args, env, cont, site)
}

// envPkgs are packages whose functions talk to the operating system.
var envPkgs = map[string]bool{"os": true, "syscall": true, "os/exec": true, "os/user": true, "net": true, "os/signal": true,
	"path/filepath": false, "io/ioutil": true, "runtime": true, "github.com/spf13/viper": true, "github.com/spf13/pflag": true,
	"github.com/denisbrodbeck/machineid": true, "regexp": false}

// silencedResults is zeroResults except that *struct results are fresh zero objects, so that
// chained logger calls (log.WithField(..).Debug(..)) and promoted methods keep working.
func silencedResults(sig *types.Signature) Value {
	r := sig.Results()
	mk := func(t types.Type) Value {
		if fs, ok := t.Underlying().(*types.Signature); ok {
			// a silenced function returning a function (e.g. a deferred timer stop): a no-op
			return &NativeFn{name: "silenced-func", f: func(w *World, th *Thread, args []Value) Value { return silencedResults(fs) }}
		}
		if p, ok := t.Underlying().(*types.Pointer); ok {
			if _, ok := p.Elem().Underlying().(*types.Struct); ok {
				c := new(Value)
				*c = zero(p.Elem())
				return Ptr(c)
			}
		}
		return zero(t)
	}
	switch r.Len() {
	case 0:
		return nil
	case 1:
		return mk(r.At(0).Type())
	}
	t := make(Tuple, r.Len())
	for i := range t {
		t[i] = mk(r.At(i).Type())
	}
	return t
}

func zeroResults(sig *types.Signature) Value {
	r := sig.Results()
	switch r.Len() {
	case 0:
		return nil
	case 1:
		return zero(r.At(0).Type())
	}
	t := make(Tuple, r.Len())
	for i := range t {
		t[i] = zero(r.At(i).Type())
	}
	return t
}

func funcPkgPath(fn *ssa.Function) string {
	if fn.Pkg != nil {
		return fn.Pkg.Pkg.Path()
	}
	if o := fn.Origin(); o != nil && o.Pkg != nil {
		return o.Pkg.Pkg.Path()
	}
	if obj := fn.Object(); obj != nil && obj.Pkg() != nil {
		return obj.Pkg().Path()
	}
	if fn.Parent() != nil {
		return funcPkgPath(fn.Parent())
	}
	// wrappers: look at receiver type
	if fn.Signature.Recv() != nil {
		t := fn.Signature.Recv().Type()
		if p, ok := t.(*types.Pointer); ok {
			t = p.Elem()
		}
		if n, ok := t.(*types.Named); ok && n.Obj().Pkg() != nil {
			return n.Obj().Pkg().Path()
		}
	}
	return ""
}

// ---- running ----------------------------------------------------------------------------------

type stopReason int

const (
	stopDone stopReason = iota
	stopPending
	stopArriving
)

// runThread executes th until it finishes or stops at a visible operation.
func (w *World) runThread(th *Thread) (reason stopReason) {
	saved := w.cur
	w.cur = th
	defer func() { w.cur = saved }()
	for {
		st, again := w.runThreadInner(th)
		if !again {
			return st
		}
	}
}

func (w *World) runThreadInner(th *Thread) (reason stopReason, again bool) {
	defer func() {
		if r := recover(); r != nil {
			switch p := r.(type) {
			case goPanic:
				w.raise(th, w.makeRuntimeError(p.msg))
				again = true
			default:
				panic(r)
			}
		}
	}()
	for {
		if th.pending != nil {
			if !th.granted {
				return stopPending, false
			}
			if th.retry != nil {
				r := th.retry
				th.retry = nil
				r()
				continue
			}
		}
		fr := th.top()
		if fr == nil {
			th.done = true
			return stopDone, false
		}
		w.steps++
		if w.steps > w.eng.cfg.MaxSteps {
			panic(pathEnd{kind: "budget", msg: "max steps"})
		}
		if fr.block == nil {
			panic(w.unsupported("frame without block in %s", fr.fn))
		}
		instr := fr.block.Instrs[fr.pc]
		w.exec(th, fr, instr)
		if th.ranOp {
			th.ranOp = false
			if w.eng.cfg.LazyArrive && !th.sync && th.pending == nil {
				return stopArriving, false
			}
		}
	}
}

// finishFrame is called when fr executes Return (after its RunDefers).
func (w *World) returnFrame(th *Thread, fr *frame, res Value) {
	w.popFrame(th)
	if fr.cont != nil {
		fr.cont(res)
	}
}

// raise starts panicking in the top frame of th.
func (w *World) panicMessage(v Value) string {
	if iv, ok := v.(Iface); ok && iv.t != nil {
		if s, ok := iv.v.(Struct); ok && len(s) == 1 && types.Identical(iv.t, w.eng.runtimeErrorType()) {
			if str, ok := s[0].(string); ok {
				return str
			}
		}
		if str, ok := iv.v.(string); ok {
			return str
		}
		if w.eng.implements(iv.t, w.eng.errorIface()) && !w.eng.isOpaqueType(iv.t) {
			return w.errorString(iv)
		}
	}
	return show(v)
}

func (w *World) raise(th *Thread, val Value) {
	if fr := th.top(); fr != nil {
		loc := fr.fn.String() + fr.posString(w.eng)
		for i, n := len(th.frames)-2, 0; i >= 0 && n < 5; i, n = i-1, n+1 {
			loc += " < " + th.frames[i].fn.String() + th.frames[i].posString(w.eng)
		}
		if len(w.lastPanicLoc) < 2000 {
			w.lastPanicLoc += " || " + loc
		}
	}
	fr := th.top()
	if fr == nil {
		th.crashed = true
		th.done = true
		th.result = val
		return
	}
	fr.panicking = true
	fr.panicVal = val
	w.unwind(th, fr)
}

// unwind continues running the deferred calls of a panicking frame.
func (w *World) unwind(th *Thread, fr *frame) {
	for {
		if len(fr.defers) > 0 {
			d := fr.defers[len(fr.defers)-1]
			fr.defers = fr.defers[:len(fr.defers)-1]
			fr.unwinding = true
			// run the deferred call; when it returns, continue unwinding
			func() {
				defer func() {
					if r := recover(); r != nil {
						if gp, ok := r.(goPanic); ok {
							// panic raised synchronously while starting the deferred call
							fr.panicVal = w.makeRuntimeError(gp.msg)
							return
						}
						panic(r)
					}
				}()
				started := len(th.frames)
				w.invokeValue(th, d.fn, d.args, func(Value) {
					w.afterDeferInUnwind(th, fr)
				}, d.instr)
				if th.pending != nil && !th.granted && len(th.frames) == started {
					fr.defers = append(fr.defers, d)
					th.retry = func() { w.unwind(th, fr) }
					return
				}
				if len(th.frames) > started {
					th.top().isDeferCall = true
				}
			}()
			return
		}
		// no more defers
		fr.unwinding = false
		if !fr.panicking {
			w.recovered(th, fr)
			return
		}
		// propagate to caller
		val := fr.panicVal
		w.popFrame(th)
		parent := th.top()
		if parent == nil {
			th.crashed = true
			th.done = true
			th.result = val
			return
		}
		if fr.isDeferCall && parent.unwinding {
			// a deferred call panicked while parent was already unwinding: replace the panic
			parent.panicking = true
			parent.panicVal = val
			fr = parent
			continue
		}
		if fr.isDeferCall && parent.inRunDefers {
			parent.inRunDefers = false
		}
		parent.panicking = true
		parent.panicVal = val
		fr = parent
	}
}

// afterDeferInUnwind is the continuation of a deferred call run during panic unwinding.
func (w *World) afterDeferInUnwind(th *Thread, fr *frame) {
	if !fr.panicking {
		// recovered: run remaining defers normally then resume at Recover block
		if len(fr.defers) > 0 {
			w.unwind(th, fr)
			return
		}
		fr.unwinding = false
		w.recovered(th, fr)
		return
	}
	w.unwind(th, fr)
}

func (w *World) recovered(th *Thread, fr *frame) {
	if fr.fn.Recover != nil {
		fr.prevBlock = fr.block
		fr.block = fr.fn.Recover
		fr.pc = 0
		return
	}
	// no named results: return zero values
	w.returnFrame(th, fr, zeroResults(fr.fn.Signature))
}

func (w *World) makeRuntimeError(msg string) Value {
	// represented as an interface holding an opaque runtime error with a message
	return Iface{t: w.eng.runtimeErrorType(), v: Struct{msg}}
}

// ---- instruction execution --------------------------------------------------------------------

func (w *World) exec(th *Thread, fr *frame, instr ssa.Instruction) {
	switch in := instr.(type) {
	case *ssa.DebugRef:
		fr.pc++
	case *ssa.UnOp:
		w.execUnOp(th, fr, in)
	case *ssa.BinOp:
		x, y := w.get(fr, in.X), w.get(fr, in.Y)
		if in.Op == token.SHL || in.Op == token.SHR {
			fr.env[in] = w.shift(in.Op, in.X.Type(), x, y, in.Y.Type())
		} else {
			t := in.X.Type()
			if _, isIface := t.Underlying().(*types.Interface); !isIface {
				if _, yIface := in.Y.Type().Underlying().(*types.Interface); yIface {
					t = in.Y.Type()
				}
			}
			fr.env[in] = w.binop(in.Op, t, x, y)
		}
		fr.pc++
	case *ssa.Call:
		w.execCall(th, fr, in, &in.Call, func(res Value) {
			fr.env[in] = res
			fr.pc++
		})
	case *ssa.ChangeInterface:
		fr.env[in] = w.get(fr, in.X)
		fr.pc++
	case *ssa.ChangeType:
		fr.env[in] = w.get(fr, in.X)
		fr.pc++
	case *ssa.Convert:
		fr.env[in] = w.conv(in.Type(), in.X.Type(), w.get(fr, in.X))
		fr.pc++
	case *ssa.MultiConvert:
		fr.env[in] = w.conv(in.Type(), in.X.Type(), w.get(fr, in.X))
		fr.pc++
	case *ssa.SliceToArrayPointer:
		sl := w.get(fr, in.X).(Slice)
		n := int(in.Type().(*types.Pointer).Elem().Underlying().(*types.Array).Len())
		if len(sl.a) < n {
			panic(goPanic{"runtime error: cannot convert slice to array pointer"})
		}
		panic(w.unsupported("SliceToArrayPointer"))
	case *ssa.MakeInterface:
		fr.env[in] = Iface{t: in.X.Type(), v: w.get(fr, in.X)}
		fr.pc++
	case *ssa.Extract:
		fr.env[in] = w.get(fr, in.Tuple).(Tuple)[in.Index]
		fr.pc++
	case *ssa.Slice:
		fr.env[in] = w.execSlice(fr, in)
		fr.pc++
	case *ssa.Return:
		var res Value
		switch len(in.Results) {
		case 0:
		case 1:
			res = w.get(fr, in.Results[0])
		default:
			t := make(Tuple, len(in.Results))
			for i, r := range in.Results {
				t[i] = w.get(fr, r)
			}
			res = t
		}
		w.returnFrame(th, fr, res)
	case *ssa.RunDefers:
		if len(fr.defers) == 0 {
			fr.inRunDefers = false
			fr.pc++
			return
		}
		fr.inRunDefers = true
		d := fr.defers[len(fr.defers)-1]
		fr.defers = fr.defers[:len(fr.defers)-1]
		started := len(th.frames)
		w.invokeValue(th, d.fn, d.args, func(Value) {
			// stay on the RunDefers instruction until the list is empty
		}, d.instr)
		if th.pending != nil && !th.granted && len(th.frames) == started {
			fr.defers = append(fr.defers, d) // blocked: retry this deferred call when granted
			return
		}
		if len(th.frames) > started {
			th.top().isDeferCall = true
		}
	case *ssa.Panic:
		w.raise(th, w.get(fr, in.X))
	case *ssa.Send:
		w.execSend(th, fr, in)
	case *ssa.Store:
		addr := w.get(fr, in.Addr).(Ptr)
		if addr == nil {
			panic(goPanic{"runtime error: invalid memory address or nil pointer dereference"})
		}
		storeVal(addr, w.get(fr, in.Val))
		fr.pc++
	case *ssa.If:
		c := w.get(fr, in.Cond)
		succ := 1
		if w.branch(c) {
			succ = 0
		}
		w.jump(fr, fr.block.Succs[succ])
	case *ssa.Jump:
		w.jump(fr, fr.block.Succs[0])
	case *ssa.Defer:
		fn, args := w.prepareCall(fr, &in.Call)
		target := fr
		if in.DeferStack != nil {
			// go1.23: a defer reached through a range-over-func body belongs to the defer stack of the function
			// that owns the loop, whose handle was obtained there with ssa:deferstack
			if o, ok := w.get(fr, in.DeferStack).(*Opaque); ok && o != nil {
				if owner, ok := o.v.(*frame); ok && owner != nil {
					target = owner
				}
			}
		}
		target.defers = append(target.defers, &deferred{fn: fn, args: args, instr: in})
		fr.pc++
	case *ssa.Go:
		w.execGo(th, fr, in)
	case *ssa.MakeChan:
		sz := w.get(fr, in.Size)
		n, ok := sz.(int64)
		if !ok {
			panic(w.unsupported("make(chan) with symbolic size"))
		}
		w.nextChan++
		fr.env[in] = &Chan{id: w.nextChan, cap: int(n), et: in.Type().Underlying().(*types.Chan).Elem()}
		fr.pc++
	case *ssa.Alloc:
		p := new(Value)
		*p = zero(in.Type().(*types.Pointer).Elem())
		fr.env[in] = Ptr(p)
		fr.pc++
	case *ssa.MakeSlice:
		ln, ok1 := w.get(fr, in.Len).(int64)
		cp, ok2 := w.get(fr, in.Cap).(int64)
		if !ok1 || !ok2 {
			panic(w.unsupported("make([]T) with symbolic length"))
		}
		if ln < 0 || cp < ln {
			panic(goPanic{"runtime error: makeslice: len out of range"})
		}
		et := in.Type().Underlying().(*types.Slice).Elem()
		a := make([]Value, ln, cp)
		for i := range a {
			a[i] = zero(et)
		}
		fr.env[in] = Slice{a: a}
		fr.pc++
	case *ssa.MakeMap:
		mt := in.Type().Underlying().(*types.Map)
		m := newMap(mt.Key(), mt.Elem())
		w.nextMap++
		m.id = w.nextMap
		fr.env[in] = m
		fr.pc++
	case *ssa.Range:
		fr.env[in] = w.makeRange(fr, in)
		fr.pc++
	case *ssa.Next:
		fr.env[in] = w.execNext(fr, in)
		fr.pc++
	case *ssa.FieldAddr:
		p := w.get(fr, in.X).(Ptr)
		if p == nil {
			panic(goPanic{"runtime error: invalid memory address or nil pointer dereference"})
		}
		s, ok := (*p).(Struct)
		if !ok {
			panic(w.unsupported("FieldAddr on %T (%s)", *p, in.X.Type()))
		}
		fr.env[in] = Ptr(&s[in.Field])
		fr.pc++
	case *ssa.Field:
		s := w.get(fr, in.X).(Struct)
		fr.env[in] = copyVal(s[in.Field])
		fr.pc++
	case *ssa.IndexAddr:
		fr.env[in] = w.execIndexAddr(fr, in)
		fr.pc++
	case *ssa.Index:
		x := w.get(fr, in.X)
		idx := w.get(fr, in.Index)
		switch xv := x.(type) {
		case Array:
			fr.env[in] = copyVal(xv[w.concretizeIndex(idx, len(xv))])
		default:
			// string
			fr.env[in] = w.strIndex(x, idx)
		}
		fr.pc++
	case *ssa.Lookup:
		fr.env[in] = w.execLookup(fr, in)
		fr.pc++
	case *ssa.MapUpdate:
		m := w.get(fr, in.Map).(*Map)
		if m == nil {
			panic(goPanic{"assignment to entry in nil map"})
		}
		w.mapWriteAccess(th, m)
		w.mapStore(m, w.get(fr, in.Key), copyVal(w.get(fr, in.Value)))
		fr.pc++
	case *ssa.TypeAssert:
		fr.env[in] = w.typeAssert(fr, in)
		fr.pc++
	case *ssa.MakeClosure:
		bindings := make([]Value, len(in.Bindings))
		for i, b := range in.Bindings {
			bindings[i] = w.get(fr, b)
		}
		fr.env[in] = &Closure{fn: in.Fn.(*ssa.Function), env: bindings}
		fr.pc++
	case *ssa.Phi:
		for i, pred := range fr.block.Preds {
			if pred == fr.prevBlock {
				fr.env[in] = w.get(fr, in.Edges[i])
				break
			}
		}
		fr.pc++
	case *ssa.Select:
		w.execSelect(th, fr, in)
	default:
		panic(w.unsupported("instruction %T", instr))
	}
}

func (w *World) jump(fr *frame, to *ssa.BasicBlock) {
	// phi nodes must be evaluated in parallel with respect to the previous block
	fr.prevBlock = fr.block
	fr.block = to
	fr.pc = 0
	// evaluate all phis simultaneously
	var vals []Value
	var phis []*ssa.Phi
	for _, in := range to.Instrs {
		phi, ok := in.(*ssa.Phi)
		if !ok {
			break
		}
		for i, pred := range to.Preds {
			if pred == fr.prevBlock {
				vals = append(vals, w.get(fr, phi.Edges[i]))
				break
			}
		}
		phis = append(phis, phi)
	}
	for i, phi := range phis {
		fr.env[phi] = vals[i]
	}
	fr.pc = len(phis)
	// loop bound: count visits of loop headers per frame
	if w.eng.cfg.Unwind > 0 && to.Index <= fr.prevBlock.Index {
		if fr.env == nil {
			return
		}
		key := loopKey{to}
		n, _ := fr.env[key].(int64)
		n++
		fr.env[key] = n
		if int(n) > w.eng.cfg.Unwind {
			panic(pathEnd{kind: "unwind", msg: fmt.Sprintf("loop bound %d exceeded in %s%s", w.eng.cfg.Unwind, fr.fn, fr.posString(w.eng))})
		}
	}
}

// loopKey is a fake ssa.Value used to store loop counters in the frame environment.
type loopKey struct{ b *ssa.BasicBlock }

func (loopKey) Name() string                  { return "loop" }
func (loopKey) String() string                { return "loop" }
func (loopKey) Type() types.Type              { return nil }
func (loopKey) Parent() *ssa.Function         { return nil }
func (loopKey) Referrers() *[]ssa.Instruction { return nil }
func (loopKey) Pos() token.Pos                { return token.NoPos }

func (w *World) execUnOp(th *Thread, fr *frame, in *ssa.UnOp) {
	switch in.Op {
	case token.MUL: // load
		p, ok := w.get(fr, in.X).(Ptr)
		if !ok {
			panic(w.unsupported("load through %T", w.get(fr, in.X)))
		}
		if p == nil {
			panic(goPanic{"runtime error: invalid memory address or nil pointer dereference"})
		}
		fr.env[in] = loadVal(p)
		fr.pc++
	case token.ARROW:
		w.execRecv(th, fr, in)
	default:
		fr.env[in] = w.unop(in.Op, in.X.Type(), w.get(fr, in.X))
		fr.pc++
	}
}

func (w *World) execSlice(fr *frame, in *ssa.Slice) Value {
	x := w.get(fr, in.X)
	var lo, hi, max Value
	if in.Low != nil {
		lo = w.get(fr, in.Low)
	}
	if in.High != nil {
		hi = w.get(fr, in.High)
	}
	if in.Max != nil {
		max = w.get(fr, in.Max)
	}
	if isStringType(in.X.Type()) {
		return w.strSlice(x, lo, hi)
	}
	var a []Value
	wasNil := false
	switch xv := x.(type) {
	case Slice:
		if xv.sym != nil {
			if lo == nil && hi == nil && max == nil {
				return xv
			}
			panic(w.unsupported("slicing a []byte view of a symbolic string"))
		}
		a = xv.a
		wasNil = xv.nil
	case Ptr: // *array
		if xv == nil {
			panic(goPanic{"runtime error: invalid memory address or nil pointer dereference"})
		}
		a = []Value((*xv).(Array))
	default:
		panic(w.unsupported("slice of %T", x))
	}
	l, h, m := 0, len(a), cap(a)
	conc := func(v Value, n int) int {
		if c, ok := v.(int64); ok {
			return int(c)
		}
		return w.concretizeIndex(v, n+1)
	}
	if lo != nil {
		l = conc(lo, cap(a))
	}
	if hi != nil {
		h = conc(hi, cap(a))
	}
	if max != nil {
		m = conc(max, cap(a))
	}
	if l < 0 || h < l || m < h || m > cap(a) {
		panic(goPanic{fmt.Sprintf("runtime error: slice bounds out of range [%d:%d:%d] with capacity %d", l, h, m, cap(a))})
	}
	if wasNil && l == 0 && h == 0 {
		return Slice{nil: true}
	}
	return Slice{a: a[l:h:m]}
}

func (w *World) execIndexAddr(fr *frame, in *ssa.IndexAddr) Value {
	x := w.get(fr, in.X)
	idx := w.get(fr, in.Index)
	switch xv := x.(type) {
	case Slice:
		if xv.sym != nil {
			panic(w.unsupported("indexing a []byte view of a symbolic string"))
		}
		i := w.concretizeIndex(idx, len(xv.a))
		return Ptr(&xv.a[i])
	case Ptr:
		if xv == nil {
			panic(goPanic{"runtime error: invalid memory address or nil pointer dereference"})
		}
		a := (*xv).(Array)
		i := w.concretizeIndex(idx, len(a))
		return Ptr(&a[i])
	}
	panic(w.unsupported("IndexAddr on %T", x))
}

// ---- maps -------------------------------------------------------------------------------------

// mapFind locates the entry for key k, forking on symbolic comparisons.
func (w *World) mapFind(m *Map, k Value) *mapEntry {
	if m == nil {
		return nil
	}
	k = normStr(k)
	if hk, ok := hashKey(k); ok {
		if e, ok := m.idx[hk]; ok {
			return e
		}
		if m.symKeys == 0 {
			return nil
		}
		for _, e := range m.entries {
			if _, conc := hashKey(e.k); conc {
				continue
			}
			if w.branch(w.equals(m.kt, e.k, k)) {
				return e
			}
		}
		return nil
	}
	for _, e := range m.entries {
		if w.branch(w.equals(m.kt, e.k, k)) {
			return e
		}
	}
	return nil
}

func (w *World) mapStore(m *Map, k, v Value) {
	k = normStr(k)
	if e := w.mapFind(m, k); e != nil {
		e.v = v
		return
	}
	m.addEntry(k, v)
}

func (w *World) mapDelete(m *Map, k Value) {
	if e := w.mapFind(m, k); e != nil {
		m.removeEntry(e)
	}
}

func (w *World) execLookup(fr *frame, in *ssa.Lookup) Value {
	x := w.get(fr, in.X)
	k := w.get(fr, in.Index)
	if isStringType(in.X.Type()) {
		return w.strIndex(x, k)
	}
	m := x.(*Map)
	var vt types.Type = in.X.Type().Underlying().(*types.Map).Elem()
	if m != nil {
		w.mapReadAccess(w.cur, m)
	}
	e := w.mapFind(m, k)
	var v Value
	ok := e != nil
	if ok {
		v = copyVal(e.v)
	} else {
		v = zero(vt)
	}
	if in.CommaOk {
		return Tuple{v, ok}
	}
	return v
}

type rangeIter struct {
	m      *Map
	keys   []*mapEntry
	str    Value
	pos    int
	isStr  bool
	remain []*mapEntry
}

func (w *World) makeRange(fr *frame, in *ssa.Range) Value {
	x := w.get(fr, in.X)
	if isStringType(in.X.Type()) {
		s, ok := normStr(x).(string)
		if !ok {
			// symbolic bytes: iterate bytes as runes if all < 0x80 is asserted by harness; otherwise unsupported
			panic(w.unsupported("range over symbolic string"))
		}
		return &Opaque{kind: "rangeStr", v: &rangeIter{isStr: true, str: s}}
	}
	m := x.(*Map)
	it := &rangeIter{m: m}
	if m != nil {
		w.mapReadAccess(w.cur, m)
		it.remain = append(it.remain, m.entries...)
	}
	return &Opaque{kind: "rangeMap", v: it}
}

func (w *World) execNext(fr *frame, in *ssa.Next) Value {
	it := w.get(fr, in.Iter).(*Opaque).v.(*rangeIter)
	if it.isStr {
		s := it.str.(string)
		if it.pos >= len(s) {
			return Tuple{false, int64(0), int64(0)}
		}
		i := it.pos
		var r rune
		var sz int
		for j, c := range s[i:] {
			_ = j
			r = c
			sz = len(string(c))
			if c == 0xFFFD {
				sz = 1
			}
			break
		}
		it.pos += sz
		return Tuple{true, int64(i), int64(r)}
	}
	// drop entries deleted since
	for {
		// filter remain for still-present entries
		live := it.remain[:0:0]
		for _, e := range it.remain {
			if w.mapHas(it.m, e) {
				live = append(live, e)
			}
		}
		it.remain = live
		if len(it.remain) == 0 {
			var kz, vz Value
			mt := in.Iter.(*ssa.Range).X.Type().Underlying().(*types.Map)
			kz, vz = zero(mt.Key()), zero(mt.Elem())
			return Tuple{false, kz, vz}
		}
		pick := 0
		if w.eng.cfg.MapOrderPerm > 0 && len(it.remain) <= w.eng.cfg.MapOrderPerm && len(it.remain) > 1 && w.mapOrderHere(in) {
			pick = w.choose(len(it.remain), DChoose)
		}
		e := it.remain[pick]
		it.remain = append(it.remain[:pick:pick], it.remain[pick+1:]...)
		return Tuple{true, e.k, copyVal(e.v)}
	}
}

// mapOrderHere: with maporderin=<substrings> only map ranges inside functions whose name contains one of them have
// their iteration order explored (the others iterate in insertion order).
func (w *World) mapOrderHere(in *ssa.Next) bool {
	if len(w.eng.cfg.MapOrderIn) == 0 {
		return true
	}
	name := in.Parent().String()
	for _, s := range w.eng.cfg.MapOrderIn {
		if strings.Contains(name, s) {
			return true
		}
	}
	return false
}

func (w *World) mapHas(m *Map, e *mapEntry) bool {
	for _, x := range m.entries {
		if x == e {
			return true
		}
	}
	return false
}

// ---- type assertions --------------------------------------------------------------------------

func (w *World) typeAssert(fr *frame, in *ssa.TypeAssert) Value {
	x := w.get(fr, in.X).(Iface)
	ok := false
	var v Value
	if x.t != nil {
		if it, isI := in.AssertedType.Underlying().(*types.Interface); isI {
			ok = w.eng.implements(x.t, it)
			v = x
		} else {
			ok = types.Identical(x.t, in.AssertedType)
			v = copyVal(x.v)
		}
	}
	if !ok {
		if in.CommaOk {
			return Tuple{zero(in.AssertedType), false}
		}
		dyn := "nil"
		if x.t != nil {
			dyn = x.t.String()
		}
		panic(goPanic{fmt.Sprintf("interface conversion: interface is %s, not %s", dyn, in.AssertedType)})
	}
	if in.CommaOk {
		return Tuple{v, true}
	}
	return v
}

// ---- calls ------------------------------------------------------------------------------------

// prepareCall evaluates the callee and arguments of a call.
func (w *World) prepareCall(fr *frame, call *ssa.CallCommon) (Value, []Value) {
	v := w.get(fr, call.Value)
	var fn Value
	var args []Value
	if call.Method == nil {
		fn = v
	} else {
		recv := v.(Iface)
		if recv.t == nil {
			panic(goPanic{"runtime error: invalid memory address or nil pointer dereference (method call on nil interface)"})
		}
		if op, ok := recv.v.(*Opaque); ok && op != nil {
			if m := w.opaqueMethod(op, call.Method.Name()); m != nil {
				fn = m
				args = append(args, recv.v)
				for _, a := range call.Args {
					args = append(args, w.get(fr, a))
				}
				return fn, args
			}
		}
		f := w.eng.lookupMethod(recv.t, call.Method)
		if f == nil {
			// silenced interface types (loggers)
			panic(w.unsupported("method %s not found on %s", call.Method.Name(), recv.t))
		}
		fn = f
		args = append(args, copyVal(recv.v))
	}
	for _, a := range call.Args {
		args = append(args, copyVal(w.get(fr, a)))
	}
	return fn, args
}

func (w *World) execCall(th *Thread, fr *frame, site ssa.Instruction, call *ssa.CallCommon, cont func(Value)) {
	// silenced interface method calls (e.g. logrus.FieldLogger)
	if call.Method != nil {
		if pkg := call.Method.Pkg(); pkg != nil && w.eng.silenced(pkg.Path()) {
			cont(silencedResults(call.Method.Type().(*types.Signature)))
			return
		}
	}
	fn, args := w.prepareCall(fr, call)
	w.invokeValue(th, fn, args, cont, site)
}

func (w *World) execGo(th *Thread, fr *frame, in *ssa.Go) {
	// spawning commutes with every operation of other threads: not a scheduling point
	fn, args := w.prepareCall(fr, &in.Call)
	nt := w.newThread(th, describeFn(fn))
	w.invokeValue(nt, fn, args, func(Value) {}, in)
	fr.pc++
	w.started = append(w.started, nt)
}

func describeFn(fn Value) string {
	switch f := fn.(type) {
	case *ssa.Function:
		return f.String()
	case *Closure:
		return f.fn.String()
	}
	return "?"
}

// ---- builtins ---------------------------------------------------------------------------------

func (w *World) callBuiltin(th *Thread, b *ssa.Builtin, args []Value, site ssa.Instruction) Value {
	switch b.Name() {
	case "append":
		if len(args) == 1 {
			return args[0]
		}
		dst := args[0].(Slice)
		switch src := args[1].(type) {
		case Slice:
			if len(src.a) == 0 {
				return dst
			}
			// copy elements to avoid aliasing of aggregates
			n := len(dst.a)
			a := append(dst.a, src.a...)
			for i := n; i < len(a); i++ {
				a[i] = copyVal(a[i])
			}
			return Slice{a: a}
		default:
			// append([]byte, string...)
			bs, ok := toBStr(args[1])
			if !ok {
				panic(w.unsupported("append of symbolic-length string"))
			}
			a := append(dst.a, []Value(bs)...)
			return Slice{a: a}
		}
	case "copy":
		dst := args[0].(Slice)
		switch src := args[1].(type) {
		case Slice:
			n := copy(dst.a, src.a)
			for i := 0; i < n; i++ {
				dst.a[i] = copyVal(dst.a[i])
			}
			return int64(n)
		default:
			bs, ok := toBStr(args[1])
			if !ok {
				panic(w.unsupported("copy from symbolic-length string"))
			}
			return int64(copy(dst.a, []Value(bs)))
		}
	case "close":
		w.closeChan(th, args[0].(*Chan))
		return nil
	case "delete":
		m := args[0].(*Map)
		if m != nil {
			w.mapWriteAccess(th, m)
			w.mapDelete(m, args[1])
		}
		return nil
	case "print", "println":
		return nil
	case "len":
		switch x := args[0].(type) {
		case string, BStr, *Term:
			return w.strLen(x)
		case Slice:
			if x.sym != nil {
				return w.strLen(x.sym)
			}
			return int64(len(x.a))
		case Array:
			return int64(len(x))
		case Ptr:
			return int64(len((*x).(Array)))
		case *Map:
			return int64(x.Len())
		case *Chan:
			if x == nil {
				return int64(0)
			}
			return int64(len(x.buf))
		}
		panic(w.unsupported("len(%T)", args[0]))
	case "cap":
		switch x := args[0].(type) {
		case Slice:
			return int64(cap(x.a))
		case Array:
			return int64(len(x))
		case Ptr:
			return int64(len((*x).(Array)))
		case *Chan:
			if x == nil {
				return int64(0)
			}
			return int64(x.cap)
		}
		panic(w.unsupported("cap(%T)", args[0]))
	case "min", "max":
		t := site.(ssa.Value).Type()
		r := args[0]
		for _, a := range args[1:] {
			var lt Value
			if b.Name() == "min" {
				lt = w.binop(token.LSS, t, a, r)
			} else {
				lt = w.binop(token.GTR, t, a, r)
			}
			if w.branch(lt) {
				r = a
			}
		}
		return r
	case "clear":
		switch x := args[0].(type) {
		case *Map:
			if x != nil {
				x.entries = nil
				x.idx = map[any]*mapEntry{}
				x.symKeys = 0
			}
		case Slice:
			for i := range x.a {
				x.a[i] = zeroLike(x.a[i])
			}
		}
		return nil
	case "recover":
		// recover() must be called directly by a deferred function
		fr := th.top()
		if fr != nil && fr.isDeferCall && fr.caller != nil && fr.caller.panicking {
			fr.caller.panicking = false
			v := fr.caller.panicVal
			fr.caller.panicVal = nil
			return v
		}
		return Iface{}
	case "panic":
		panic(w.unsupported("builtin panic as value"))
	case "ssa:deferstack":
		// handle of the enclosing function's defer stack (go1.23 lowering of defers reached through loops): every
		// the handle is the frame itself
		if fr := th.top(); fr != nil {
			return &Opaque{kind: "deferstack", v: fr}
		}
		return &Opaque{kind: "deferstack"}
	case "ssa:wrapnilchk":
		recv := args[0]
		if p, ok := recv.(Ptr); ok && p == nil {
			panic(goPanic{fmt.Sprintf("value method %s.%s called using nil *%s pointer", show(args[1]), show(args[2]), show(args[1]))})
		}
		return recv
	}
	panic(w.unsupported("builtin %s", b.Name()))
}

func zeroLike(v Value) Value {
	switch x := v.(type) {
	case bool, *Term:
		_ = x
	}
	switch x := v.(type) {
	case bool:
		return false
	case int64:
		return int64(0)
	case float64:
		return float64(0)
	case string, BStr:
		return ""
	case Ptr:
		return Ptr(nil)
	case Struct:
		n := make(Struct, len(x))
		for i := range x {
			n[i] = zeroLike(x[i])
		}
		return n
	case Array:
		n := make(Array, len(x))
		for i := range x {
			n[i] = zeroLike(x[i])
		}
		return n
	case Slice:
		return Slice{nil: true}
	case *Map:
		return (*Map)(nil)
	case Iface:
		return Iface{}
	case *Chan:
		return (*Chan)(nil)
	}
	return nil
}

var _ = strings.HasPrefix
