package main

import (
	"fmt"
	"go/token"
	"go/types"
	"strconv"
	"strings"
	"time"

	"golang.org/x/tools/go/ssa"
)

// NativeFn is a callable value implemented by the engine (methods of model objects, cancel funcs).
type NativeFn struct {
	name string
	f    func(w *World, th *Thread, args []Value) Value
}

// ---- time model: time.Time = {wall:0, ext: milliseconds since the epoch, loc:nil} ------------------

func (w *World) timeStruct(ms Value) Value {
	return Struct{int64(0), ms, Ptr(nil)}
}

func timeMs(v Value) Value {
	switch x := v.(type) {
	case Struct:
		return x[1]
	case Ptr:
		return (*x).(Struct)[1]
	}
	panic(fmt.Sprintf("timeMs of %T", v))
}

var i64 = types.Typ[types.Int64]

func registerTimeIntrinsics(reg func(string, intrinsicFn)) {
	reg("time.Now", func(w *World, th *Thread, fn *ssa.Function, args []Value) Value {
		t := w.newInput("time.Now", "int64", sortBV(64))
		last, ok := w.userData["lastNow"]
		if !ok {
			// after 2001, before 2100 (keeps ms arithmetic away from overflow)
			last = int64(1_000_000_000_000)
		}
		w.vAssume(w.binop(token.GEQ, i64, t, last))
		w.vAssume(w.binop(token.LEQ, i64, t, int64(4_102_444_800_000)))
		w.userData["lastNow"] = t
		return w.timeStruct(t)
	})
	reg("time.Since", func(w *World, th *Thread, fn *ssa.Function, args []Value) Value {
		now := intrinsics["time.Now"](w, th, fn, nil)
		d := w.binop(token.SUB, i64, timeMs(now), timeMs(args[0]))
		return w.scale(d, 1_000_000)
	})
	reg("time.Until", func(w *World, th *Thread, fn *ssa.Function, args []Value) Value {
		now := intrinsics["time.Now"](w, th, fn, nil)
		d := w.binop(token.SUB, i64, timeMs(args[0]), timeMs(now))
		return w.scale(d, 1_000_000)
	})
	reg("(time.Time).Sub", func(w *World, th *Thread, fn *ssa.Function, args []Value) Value {
		d := w.binop(token.SUB, i64, timeMs(args[0]), timeMs(args[1]))
		return w.scale(d, 1_000_000)
	})
	reg("(time.Time).Add", func(w *World, th *Thread, fn *ssa.Function, args []Value) Value {
		dms := w.binop(token.QUO, i64, args[1], int64(1_000_000))
		return w.timeStruct(w.binop(token.ADD, i64, timeMs(args[0]), dms))
	})
	reg("(time.Time).UnixMilli", func(w *World, th *Thread, fn *ssa.Function, args []Value) Value { return timeMs(args[0]) })
	reg("(time.Time).UnixNano", func(w *World, th *Thread, fn *ssa.Function, args []Value) Value {
		return w.binop(token.MUL, i64, timeMs(args[0]), int64(1_000_000))
	})
	reg("(time.Time).UnixMicro", func(w *World, th *Thread, fn *ssa.Function, args []Value) Value {
		return w.binop(token.MUL, i64, timeMs(args[0]), int64(1_000))
	})
	reg("(time.Time).Unix", func(w *World, th *Thread, fn *ssa.Function, args []Value) Value {
		return w.binop(token.QUO, i64, timeMs(args[0]), int64(1_000))
	})
	reg("(time.Time).Before", func(w *World, th *Thread, fn *ssa.Function, args []Value) Value {
		return w.binop(token.LSS, i64, timeMs(args[0]), timeMs(args[1]))
	})
	reg("(time.Time).After", func(w *World, th *Thread, fn *ssa.Function, args []Value) Value {
		return w.binop(token.GTR, i64, timeMs(args[0]), timeMs(args[1]))
	})
	reg("(time.Time).Equal", func(w *World, th *Thread, fn *ssa.Function, args []Value) Value {
		return w.binop(token.EQL, i64, timeMs(args[0]), timeMs(args[1]))
	})
	reg("(time.Time).IsZero", func(w *World, th *Thread, fn *ssa.Function, args []Value) Value {
		return w.binop(token.EQL, i64, timeMs(args[0]), int64(0))
	})
	reg("(time.Time).UTC", func(w *World, th *Thread, fn *ssa.Function, args []Value) Value { return args[0] })
	reg("(time.Time).Local", func(w *World, th *Thread, fn *ssa.Function, args []Value) Value { return args[0] })
	reg("(time.Time).Round", func(w *World, th *Thread, fn *ssa.Function, args []Value) Value { return args[0] })
	reg("(time.Time).Truncate", func(w *World, th *Thread, fn *ssa.Function, args []Value) Value { return args[0] })
	reg("(time.Time).Format", func(w *World, th *Thread, fn *ssa.Function, args []Value) Value {
		if c, ok := timeMs(args[0]).(int64); ok {
			return time.UnixMilli(c).UTC().Format(concStr(w, args[1], "time layout"))
		}
		return w.newInput("time.Format!havoc", "string", sortString)
	})
	reg("(time.Time).String", func(w *World, th *Thread, fn *ssa.Function, args []Value) Value {
		return w.formatInt(timeMs(args[0]), intInfo{64, true})
	})
	reg("time.Unix", func(w *World, th *Thread, fn *ssa.Function, args []Value) Value {
		ms := w.binop(token.ADD, i64, w.binop(token.MUL, i64, args[0], int64(1000)), w.binop(token.QUO, i64, args[1], int64(1_000_000)))
		return w.timeStruct(ms)
	})
	reg("time.UnixMilli", func(w *World, th *Thread, fn *ssa.Function, args []Value) Value { return w.timeStruct(args[0]) })
	reg(vrtPkg+".WaitQuiescent", func(w *World, th *Thread, fn *ssa.Function, args []Value) Value {
		// implemented as a receive from a very long timer
		key := fmt.Sprintf("waitq:%d", th.id)
		if t, ok := w.userData[key].(*timerObj); ok {
			if t.fired {
				delete(w.userData, key)
				if !w.visible(th, &pendingOp{kind: opYield, desc: "WaitQuiescent(done)"}) {
					return blocked
				}
				return nil
			}
			th.pending = &pendingOp{kind: opRecv, ch: t.ch, desc: "WaitQuiescent"}
			if th.granted {
				th.granted = false
			}
			if len(t.ch.buf) > 0 {
				t.ch.buf = nil
				th.pending = nil
				delete(w.userData, key)
				return nil
			}
			return blocked
		}
		t := w.newTimer("WaitQuiescent")
		t.dur = 1 << 62
		w.nextChan++
		t.ch = &Chan{id: w.nextChan, cap: 1, et: types.Typ[types.Int]}
		w.userData[key] = t
		th.pending = &pendingOp{kind: opRecv, ch: t.ch, desc: "WaitQuiescent"}
		return blocked
	})
	reg("time.Sleep", func(w *World, th *Thread, fn *ssa.Function, args []Value) Value {
		if !w.visible(th, &pendingOp{kind: opYield, desc: "time.Sleep"}) {
			return blocked
		}
		return nil
	})
	reg("time.ParseDuration", func(w *World, th *Thread, fn *ssa.Function, args []Value) Value {
		d, err := time.ParseDuration(concStr(w, args[0], "ParseDuration"))
		if err != nil {
			return Tuple{int64(0), w.eng.makeError(w, err.Error(), nil)}
		}
		return Tuple{int64(d), Iface{}}
	})
	reg("(time.Duration).String", func(w *World, th *Thread, fn *ssa.Function, args []Value) Value {
		if c, ok := args[0].(int64); ok {
			return time.Duration(c).String()
		}
		return w.newInput("Duration.String!havoc", "string", sortString)
	})
	reg("(time.Duration).Seconds", func(w *World, th *Thread, fn *ssa.Function, args []Value) Value {
		if c, ok := args[0].(int64); ok {
			return time.Duration(c).Seconds()
		}
		return w.newInput("Duration.Seconds!havoc", "float64", sortFP)
	})
	timeChanType := func(fn *ssa.Function) types.Type {
		// element type time.Time from the package
		return fn.Prog.ImportedPackage("time").Type("Time").Type()
	}
	mkTimerChan := func(w *World, fn *ssa.Function) *Chan {
		w.nextChan++
		return &Chan{id: w.nextChan, cap: 1, et: timeChanType(fn)}
	}
	reg("time.After", func(w *World, th *Thread, fn *ssa.Function, args []Value) Value {
		t := w.newTimer("After")
		t.dur, _ = args[0].(int64)
		t.ch = mkTimerChan(w, fn)
		return t.ch
	})
	reg("time.Tick", func(w *World, th *Thread, fn *ssa.Function, args []Value) Value {
		t := w.newTimer("Tick")
		t.ch = mkTimerChan(w, fn)
		return t.ch
	})
	reg("time.NewTimer", func(w *World, th *Thread, fn *ssa.Function, args []Value) Value {
		t := w.newTimer("NewTimer")
		t.dur, _ = args[0].(int64)
		t.ch = mkTimerChan(w, fn)
		tt := fn.Signature.Results().At(0).Type().(*types.Pointer).Elem()
		s := zero(tt).(Struct)
		st := tt.Underlying().(*types.Struct)
		for i := 0; i < st.NumFields(); i++ {
			if st.Field(i).Name() == "C" {
				s[i] = t.ch
			}
		}
		p := new(Value)
		*p = s
		w.userData[fmt.Sprintf("timer:%p", p)] = t
		return Ptr(p)
	})
	reg("time.NewTicker", func(w *World, th *Thread, fn *ssa.Function, args []Value) Value {
		t := w.newTimer("NewTicker")
		t.ch = mkTimerChan(w, fn)
		tt := fn.Signature.Results().At(0).Type().(*types.Pointer).Elem()
		s := zero(tt).(Struct)
		st := tt.Underlying().(*types.Struct)
		for i := 0; i < st.NumFields(); i++ {
			if st.Field(i).Name() == "C" {
				s[i] = t.ch
			}
		}
		p := new(Value)
		*p = s
		w.userData[fmt.Sprintf("timer:%p", p)] = t
		return Ptr(p)
	})
	reg("time.AfterFunc", func(w *World, th *Thread, fn *ssa.Function, args []Value) Value {
		t := w.newTimer("AfterFunc")
		t.dur, _ = args[0].(int64)
		t.fn = args[1]
		tt := fn.Signature.Results().At(0).Type().(*types.Pointer).Elem()
		p := new(Value)
		*p = zero(tt)
		w.userData[fmt.Sprintf("timer:%p", p)] = t
		return Ptr(p)
	})
	stop := func(w *World, th *Thread, fn *ssa.Function, args []Value) Value {
		p := args[0].(Ptr)
		if p == nil {
			panic(goPanic{"runtime error: invalid memory address or nil pointer dereference (Stop on a nil *time.Timer)"})
		}
		t, _ := w.userData[fmt.Sprintf("timer:%p", p)].(*timerObj)
		if t == nil {
			return false
		}
		was := !t.fired && !t.stopped
		t.stopped = true
		return was
	}
	reg("(*time.Timer).Stop", stop)
	reg("(*time.Ticker).Stop", func(w *World, th *Thread, fn *ssa.Function, args []Value) Value {
		stop(w, th, fn, args)
		return nil
	})
	reg("(*time.Timer).Reset", func(w *World, th *Thread, fn *ssa.Function, args []Value) Value {
		p := args[0].(Ptr)
		if p == nil {
			panic(goPanic{"runtime error: invalid memory address or nil pointer dereference (Reset on a nil *time.Timer)"})
		}
		t, _ := w.userData[fmt.Sprintf("timer:%p", p)].(*timerObj)
		if t == nil {
			return false
		}
		was := !t.fired && !t.stopped
		t.fired = false
		t.stopped = false
		t.armed = w.vtime
		if d, ok := args[1].(int64); ok {
			t.dur = d
		}
		return was
	})
}

// ---- context model ---------------------------------------------------------------------------------

type ctxObj struct {
	parent   *ctxObj
	done     *Chan
	err      Value // Iface error or nil
	children []*ctxObj
	key, val Value
	hasVal   bool
	deadline Value
	hasDL    bool
}

func (w *World) ctxValue(c *ctxObj) Value {
	return Iface{t: w.eng.opaqueType("context.verifCtx"), v: &Opaque{kind: "ctx", v: c}}
}

func (w *World) ctxOf(v Value) *ctxObj {
	iv, ok := v.(Iface)
	if !ok || iv.t == nil {
		panic(goPanic{"cannot create context from nil parent"})
	}
	op, ok := iv.v.(*Opaque)
	if !ok || op.kind != "ctx" {
		panic(w.unsupported("context of foreign type %v", iv.t))
	}
	return op.v.(*ctxObj)
}

func (w *World) ctxCancel(th *Thread, c *ctxObj, err Value) {
	if c.err != nil {
		return
	}
	c.err = err
	if c.done == nil {
		w.nextChan++
		c.done = &Chan{id: w.nextChan, et: types.NewStruct(nil, nil)}
	}
	if !c.done.closed {
		c.done.closed = true
		if th != nil {
			c.done.closeVC = append([]int{}, th.vc...)
			w.tick(th)
		}
	}
	for _, ch := range c.children {
		w.ctxCancel(th, ch, err)
	}
}

func (w *World) ctxGlobalErr(name string) Value {
	pkg := w.eng.prog.ImportedPackage("context")
	g := pkg.Var(name)
	return *w.globalAddr(g)
}

func registerContextIntrinsics(reg func(string, intrinsicFn)) {
	bg := func(w *World, th *Thread, fn *ssa.Function, args []Value) Value {
		if c, ok := w.userData["ctx.bg"]; ok {
			return c
		}
		c := w.ctxValue(&ctxObj{})
		w.userData["ctx.bg"] = c
		return c
	}
	reg("context.Background", bg)
	reg("context.TODO", bg)
	newChild := func(w *World, parent Value) *ctxObj {
		p := w.ctxOf(parent)
		c := &ctxObj{parent: p}
		p.children = append(p.children, c)
		if p.err != nil {
			c.err = p.err
			w.nextChan++
			c.done = &Chan{id: w.nextChan, et: types.NewStruct(nil, nil), closed: true}
		}
		return c
	}
	cancelFn := func(c *ctxObj) *NativeFn {
		return &NativeFn{name: "context.cancel", f: func(w *World, th *Thread, args []Value) Value {
			if !w.visible(th, &pendingOp{kind: opYield, desc: "ctx.cancel"}) {
				return blocked
			}
			w.ctxCancel(th, c, w.ctxGlobalErr("Canceled"))
			return nil
		}}
	}
	reg("context.WithCancel", func(w *World, th *Thread, fn *ssa.Function, args []Value) Value {
		c := newChild(w, args[0])
		return Tuple{w.ctxValue(c), cancelFn(c)}
	})
	withTimer := func(w *World, th *Thread, fn *ssa.Function, args []Value) Value {
		c := newChild(w, args[0])
		t := w.newTimer("ctx.timeout")
		if d, ok := args[1].(int64); ok { // WithTimeout(parent, d); WithDeadline has an instant: due next
			t.dur = d
		}
		t.onFire = func() {
			w.ctxCancel(nil, c, w.ctxGlobalErr("DeadlineExceeded"))
		}
		return Tuple{w.ctxValue(c), cancelFn(c)}
	}
	reg("context.WithTimeout", withTimer)
	reg("context.WithDeadline", withTimer)
	reg("context.WithValue", func(w *World, th *Thread, fn *ssa.Function, args []Value) Value {
		c := newChild(w, args[0])
		c.key, c.val, c.hasVal = args[1], args[2], true
		return w.ctxValue(c)
	})
}

// opaqueMethod resolves method calls on engine model objects held in interfaces.
func (w *World) opaqueMethod(op *Opaque, name string) Value {
	switch op.kind {
	case "ctx":
		c := op.v.(*ctxObj)
		switch name {
		case "Done":
			return &NativeFn{name: "ctx.Done", f: func(w *World, th *Thread, args []Value) Value {
				if c.done == nil {
					// a context that can never be cancelled has a nil Done channel only for Background
					if c.parent == nil {
						return (*Chan)(nil)
					}
					w.nextChan++
					c.done = &Chan{id: w.nextChan, et: types.NewStruct(nil, nil)}
					// share cancellation with ancestors: handled by ctxCancel recursion
				}
				return c.done
			}}
		case "Err":
			return &NativeFn{name: "ctx.Err", f: func(w *World, th *Thread, args []Value) Value {
				if c.err == nil {
					return Iface{}
				}
				return c.err
			}}
		case "Value":
			return &NativeFn{name: "ctx.Value", f: func(w *World, th *Thread, args []Value) Value {
				for x := c; x != nil; x = x.parent {
					if x.hasVal {
						if w.branch(w.equals(nil, x.key, args[1])) {
							return x.val
						}
					}
				}
				return Iface{}
			}}
		case "Deadline":
			return &NativeFn{name: "ctx.Deadline", f: func(w *World, th *Thread, args []Value) Value {
				return Tuple{w.timeStruct(int64(0)), false}
			}}
		}
	case "rtype":
		t := op.v.(types.Type)
		switch name {
		case "String":
			return &NativeFn{name: "rtype.String", f: func(w *World, th *Thread, args []Value) Value {
				return types.TypeString(t, func(p *types.Package) string { return p.Name() })
			}}
		case "Name":
			return &NativeFn{name: "rtype.Name", f: func(w *World, th *Thread, args []Value) Value {
				if n, ok := t.(*types.Named); ok {
					return n.Obj().Name()
				}
				return ""
			}}
		}
	}
	return nil
}

// ---- viper model: a flat key/value store set by viper.Set / viper.SetDefault from the harness --------

func registerViperIntrinsics(reg func(string, intrinsicFn)) {
	const vp = "github.com/spf13/viper."
	store := func(w *World) map[string]Value {
		m, ok := w.userData["viper"].(map[string]Value)
		if !ok {
			m = map[string]Value{}
			w.userData["viper"] = m
		}
		return m
	}
	get := func(w *World, key Value) (Value, bool) {
		k := concStr(w, key, "viper key")
		v, ok := store(w)[strings.ToLower(k)]
		if !ok {
			return nil, false
		}
		if iv, isI := v.(Iface); isI {
			if iv.t == nil {
				return nil, false
			}
			return iv.v, true
		}
		return v, true
	}
	set := func(w *World, th *Thread, fn *ssa.Function, args []Value) Value {
		store(w)[strings.ToLower(concStr(w, args[0], "viper key"))] = args[1]
		return nil
	}
	reg(vp+"Set", set)
	reg(vp+"SetDefault", func(w *World, th *Thread, fn *ssa.Function, args []Value) Value {
		k := strings.ToLower(concStr(w, args[0], "viper key"))
		if _, ok := store(w)[k]; !ok {
			store(w)[k] = args[1]
		}
		return nil
	})
	reg(vp+"IsSet", func(w *World, th *Thread, fn *ssa.Function, args []Value) Value {
		_, ok := get(w, args[0])
		return ok
	})
	reg(vp+"Get", func(w *World, th *Thread, fn *ssa.Function, args []Value) Value {
		k := strings.ToLower(concStr(w, args[0], "viper key"))
		if v, ok := store(w)[k]; ok {
			return v
		}
		return Iface{}
	})
	reg(vp+"GetBool", func(w *World, th *Thread, fn *ssa.Function, args []Value) Value {
		v, ok := get(w, args[0])
		if !ok {
			return false
		}
		switch x := v.(type) {
		case bool, *Term:
			return x
		case string:
			return x == "true" || x == "1"
		}
		return false
	})
	reg(vp+"GetString", func(w *World, th *Thread, fn *ssa.Function, args []Value) Value {
		v, ok := get(w, args[0])
		if !ok {
			return ""
		}
		switch x := v.(type) {
		case string, *Term, BStr:
			return x
		case int64:
			return strconv.FormatInt(x, 10)
		}
		return ""
	})
	geti := func(w *World, th *Thread, fn *ssa.Function, args []Value) Value {
		v, ok := get(w, args[0])
		if !ok {
			return int64(0)
		}
		switch x := v.(type) {
		case int64, *Term:
			return x
		case string:
			n, _ := strconv.ParseInt(x, 10, 64)
			return n
		}
		return int64(0)
	}
	for _, n := range []string{"GetInt", "GetInt64", "GetInt32", "GetUint", "GetUint32", "GetUint64"} {
		reg(vp+n, geti)
	}
	reg(vp+"GetDuration", func(w *World, th *Thread, fn *ssa.Function, args []Value) Value {
		v, ok := get(w, args[0])
		if !ok {
			return int64(0)
		}
		switch x := v.(type) {
		case int64, *Term:
			return x
		case string:
			d, _ := time.ParseDuration(x)
			return int64(d)
		}
		return int64(0)
	})
	reg(vp+"GetFloat64", func(w *World, th *Thread, fn *ssa.Function, args []Value) Value {
		v, ok := get(w, args[0])
		if !ok {
			return float64(0)
		}
		switch x := v.(type) {
		case float64, *Term:
			return x
		case int64:
			return float64(x)
		}
		return float64(0)
	})
	reg(vp+"GetStringSlice", func(w *World, th *Thread, fn *ssa.Function, args []Value) Value {
		v, ok := get(w, args[0])
		if !ok {
			return Slice{nil: true}
		}
		if sl, ok := v.(Slice); ok {
			return sl
		}
		return Slice{nil: true}
	})
}
