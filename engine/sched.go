package main

import (
	"fmt"
	"go/types"
	"math"
	"os"

	"golang.org/x/tools/go/ssa"
)

type blockedT struct{}

var blocked = blockedT{}

type syncObj struct {
	kind    string // mutex | rwmutex | wg | cond
	locked  bool
	owner   int
	readers int
	count   int64
	parked  []*Thread // cond waiters
	vc      []int
}

type onceObj struct {
	state int // 0 new, 1 running, 2 done
	vc    []int
}

var optrace = os.Getenv("GOSYM_OPTRACE") != ""

type timerObj struct {
	dur     int64 // duration in ns when known (0 = unknown)
	armed   int64 // virtual time at which the timer was armed: lazy timers fire in the order of armed+dur
	id      int
	ch      *Chan
	fn      Value
	fired   bool
	stopped bool
	onFire  func()
	desc    string
}

func (w *World) syncObjFor(p Ptr, kind string) *syncObj {
	if p == nil {
		panic(goPanic{"runtime error: invalid memory address or nil pointer dereference (sync object)"})
	}
	so, ok := w.syncObjs[p]
	if !ok {
		so = &syncObj{kind: kind, owner: -1}
		w.syncObjs[p] = so
	}
	return so
}

func (w *World) newThread(parent *Thread, name string) *Thread {
	th := &Thread{id: len(w.threads), name: name}
	if parent != nil {
		th.vc = append([]int{}, parent.vc...)
		w.tick(parent)
	}
	for len(th.vc) <= th.id {
		th.vc = append(th.vc, 0)
	}
	th.vc[th.id] = 1
	w.threads = append(w.threads, th)
	return th
}

// ---- vector clocks ----------------------------------------------------------------------------

func vcJoin(a, b []int) []int {
	if len(b) > len(a) {
		n := make([]int, len(b))
		copy(n, a)
		a = n
	}
	for i, x := range b {
		if x > a[i] {
			a[i] = x
		}
	}
	return a
}

func (w *World) tick(th *Thread) {
	if th == nil || th.id < 0 {
		return
	}
	for len(th.vc) <= th.id {
		th.vc = append(th.vc, 0)
	}
	th.vc[th.id]++
}

func (w *World) release(th *Thread, vc *[]int) {
	if th == nil {
		return
	}
	*vc = vcJoin(append([]int{}, (*vc)...), th.vc)
	w.tick(th)
}

func (w *World) acquire(th *Thread, vc []int) {
	if th == nil {
		return
	}
	th.vc = vcJoin(th.vc, vc)
}

func vcLeq(a []int, id int, b []int) bool {
	// event (id, a[id]) happens-before clock b
	if id < 0 || id >= len(a) {
		return true
	}
	if id >= len(b) {
		return a[id] == 0
	}
	return a[id] <= b[id]
}

func (w *World) mapWriteAccess(th *Thread, m *Map) {
	if !w.eng.cfg.Race || th == nil || th.id < 0 {
		return
	}
	if m.lastWVC != nil && m.lastWriter != th.id && !vcLeq(m.lastWVC, m.lastWriter, th.vc) {
		w.raceDetected(fmt.Sprintf("concurrent map writes (threads %d and %d)", m.lastWriter, th.id))
	}
	m.lastWriter = th.id
	m.lastWVC = append([]int{}, th.vc...)
}

func (w *World) mapReadAccess(th *Thread, m *Map) {
	if !w.eng.cfg.Race || th == nil || th.id < 0 || m == nil {
		return
	}
	if m.lastWVC != nil && m.lastWriter != th.id && !vcLeq(m.lastWVC, m.lastWriter, th.vc) {
		w.raceDetected(fmt.Sprintf("concurrent map read and map write (threads %d and %d)", th.id, m.lastWriter))
	}
}

func (w *World) raceDetected(msg string) {
	w.reportViolation("race", msg, "")
	panic(pathEnd{kind: "violation", msg: msg})
}

// ---- visible operations -----------------------------------------------------------------------

// visible is called at the start of a visible operation. It returns true when the scheduler
// has granted the operation; otherwise the thread is parked with op pending.
func (w *World) visible(th *Thread, op *pendingOp) bool {
	if op.so != nil && len(w.eng.noSchedGlobals) > 0 && w.isNoSched(op.so) && (op.kind == opYield || w.enabledOp(op)) {
		return true
	}
	if th.sync {
		th.pending = op
		if op.kind != opYield && !w.enabled(th) {
			panic(w.unsupported("blocking operation inside synchronous call (%s)", op.desc))
		}
		th.pending = nil
		return true
	}
	if th.granted {
		th.granted = false
		th.pending = nil
		th.ranOp = true
		return true
	}
	th.pending = op
	return false
}

func (w *World) hasPendingReceiver(ch *Chan, except *Thread) *Thread {
	for _, t := range w.threads {
		if t == except || t.done || t.pending == nil {
			continue
		}
		switch t.pending.kind {
		case opRecv:
			if t.pending.ch == ch {
				return t
			}
		case opSelect:
			for _, c := range t.pending.cases {
				if !c.send && c.ch == ch {
					return t
				}
			}
		}
	}
	return nil
}

func (w *World) pendingReceivers(ch *Chan, except *Thread) []*Thread {
	var res []*Thread
	for _, t := range w.threads {
		if t == except || t.done || t.pending == nil {
			continue
		}
		switch t.pending.kind {
		case opRecv:
			if t.pending.ch == ch {
				res = append(res, t)
			}
		case opSelect:
			for _, c := range t.pending.cases {
				if !c.send && c.ch == ch {
					res = append(res, t)
					break
				}
			}
		}
	}
	return res
}

func (w *World) canSend(th *Thread, ch *Chan) bool {
	if ch == nil {
		return false
	}
	if ch.closed {
		return true
	}
	if len(ch.buf) < ch.cap {
		return true
	}
	return ch.cap == 0 && w.hasPendingReceiver(ch, th) != nil
}

func (w *World) canRecv(ch *Chan) bool {
	if ch == nil {
		return false
	}
	return len(ch.buf) > 0 || ch.closed
}

func (w *World) isNoSched(so *syncObj) bool {
	if w.noSchedObjs == nil {
		w.noSchedObjs = map[*syncObj]bool{}
	}
	if v, ok := w.noSchedObjs[so]; ok {
		return v
	}
	res := false
	for _, g := range w.eng.noSchedGlobals {
		if p, ok := w.globals[g]; ok {
			if w.syncObjs[p] == so {
				res = true
			}
		}
	}
	w.noSchedObjs[so] = res
	return res
}

// enabled reports whether the pending operation of th can execute now.
func (w *World) enabled(th *Thread) bool {
	return w.enabledOp(th.pending)
}

func (w *World) enabledOp(op *pendingOp) bool {
	var th *Thread
	switch op.kind {
	case opYield:
		return true
	case opSend:
		return w.canSend(th, op.ch)
	case opRecv:
		return w.canRecv(op.ch)
	case opSelect:
		if op.deflt {
			return true
		}
		for _, c := range op.cases {
			if c.send && w.canSend(th, c.ch) || !c.send && w.canRecv(c.ch) {
				return true
			}
		}
		return false
	case opLock:
		return !op.so.locked && op.so.readers == 0
	case opRLock:
		return !op.so.locked
	case opWGWait:
		return op.so.count == 0
	case opCondWait:
		return false
	case opCondReacq:
		return !op.so.locked
	case opOnceWait:
		return op.val.(*onceObj).state != 1
	case opSleepUntil:
		return false
	}
	return false
}

// doSend performs a granted send of v on ch by th.
func (w *World) doSend(th *Thread, ch *Chan, v Value) {
	if ch.closed {
		panic(goPanic{"send on closed channel"})
	}
	if len(ch.buf) < ch.cap {
		ch.buf = append(ch.buf, v)
		ch.bufVC = append(ch.bufVC, append([]int{}, th.vc...))
		w.tick(th)
		return
	}
	// rendezvous
	rs := w.pendingReceivers(ch, th)
	if len(rs) == 0 {
		panic(w.unsupported("engine: send granted without receiver"))
	}
	r := rs[w.choose(len(rs), DSched)]
	// happens-before both ways
	vc := append([]int{}, th.vc...)
	w.acquire(th, r.vc)
	r.vc = vcJoin(r.vc, vc)
	w.tick(th)
	w.tick(r)
	op := r.pending
	switch op.kind {
	case opRecv:
		op.complete(Tuple{v, true})
	case opSelect:
		idx := -1
		for i, c := range op.cases {
			if !c.send && c.ch == ch {
				idx = i
				break
			}
		}
		op.complete(Tuple{int64(idx), v, true})
	}
	r.pending = nil
	r.retry = nil
	r.granted = false
}

func (w *World) doRecv(th *Thread, ch *Chan) (Value, bool) {
	if len(ch.buf) > 0 {
		v := ch.buf[0]
		ch.buf = ch.buf[1:]
		w.acquire(th, ch.bufVC[0])
		ch.bufVC = ch.bufVC[1:]
		return v, true
	}
	if ch.closed {
		w.acquire(th, ch.closeVC)
		return zero(ch.et), false
	}
	panic(w.unsupported("engine: recv granted on empty channel"))
}

func (w *World) closeChan(th *Thread, ch *Chan) {
	if ch == nil {
		panic(goPanic{"close of nil channel"})
	}
	if ch.closed {
		panic(goPanic{"close of closed channel"})
	}
	ch.closed = true
	ch.closeVC = append([]int{}, th.vc...)
	w.tick(th)
}

func (w *World) execSend(th *Thread, fr *frame, in *ssa.Send) {
	ch := w.get(fr, in.Chan).(*Chan)
	v := copyVal(w.get(fr, in.X))
	op := &pendingOp{kind: opSend, ch: ch, val: v, desc: "send"}
	if ch == nil {
		op.kind = opSleepUntil
	}
	if !w.visible(th, op) {
		return
	}
	w.doSend(th, ch, v)
	fr.pc++
}

func (w *World) execRecv(th *Thread, fr *frame, in *ssa.UnOp) {
	ch := w.get(fr, in.X).(*Chan)
	op := &pendingOp{kind: opRecv, ch: ch, desc: "recv"}
	if ch == nil {
		op.kind = opSleepUntil
	}
	op.complete = func(res Value) {
		t := res.(Tuple)
		if in.CommaOk {
			fr.env[in] = Tuple{t[0], t[1]}
		} else {
			fr.env[in] = t[0]
		}
		fr.pc++
	}
	if !w.visible(th, op) {
		return
	}
	v, ok := w.doRecv(th, ch)
	op.complete(Tuple{v, ok})
}

func (w *World) execSelect(th *Thread, fr *frame, in *ssa.Select) {
	cases := make([]selCase, len(in.States))
	for i, st := range in.States {
		ch, _ := w.get(fr, st.Chan).(*Chan)
		cases[i] = selCase{send: st.Dir == types.SendOnly, ch: ch}
		if cases[i].send {
			cases[i].val = copyVal(w.get(fr, st.Send))
		}
	}
	op := &pendingOp{kind: opSelect, cases: cases, deflt: !in.Blocking, desc: "select"}
	// result tuple: (index, recvOk, r_0...r_{k-1}) one r per receive state
	finish := func(idx int, rv Value, rok bool) {
		res := Tuple{int64(idx), rok}
		for i, st := range in.States {
			if st.Dir == types.RecvOnly {
				if i == idx {
					res = append(res, rv)
				} else {
					res = append(res, zero(st.Chan.Type().Underlying().(*types.Chan).Elem()))
				}
			}
		}
		fr.env[in] = res
		fr.pc++
	}
	op.complete = func(res Value) {
		t := res.(Tuple)
		finish(int(t[0].(int64)), t[1], t[2].(bool))
	}
	if !w.visible(th, op) {
		return
	}
	var ready []int
	for i, c := range cases {
		if c.send && w.canSend(th, c.ch) || !c.send && w.canRecv(c.ch) {
			ready = append(ready, i)
		}
	}
	if len(ready) == 0 {
		if !in.Blocking {
			finish(-1, nil, false)
			return
		}
		panic(w.unsupported("engine: select granted with no ready case"))
	}
	i := ready[w.choose(len(ready), DSched)]
	c := cases[i]
	if c.send {
		w.doSend(th, c.ch, c.val)
		finish(i, nil, false)
		return
	}
	v, ok := w.doRecv(th, c.ch)
	finish(i, v, ok)
}

// ---- timers -----------------------------------------------------------------------------------

// deadline of a timer in virtual time (saturating).
func (t *timerObj) deadline() int64 {
	if t.dur >= 1<<61 { // "when nothing else can happen any more" (WaitQuiescent): after every real timer
		return math.MaxInt64
	}
	d := t.armed + t.dur
	if d < t.armed || d > math.MaxInt64-1 {
		return math.MaxInt64 - 1
	}
	return d
}

func (w *World) newTimer(desc string) *timerObj {
	t := &timerObj{id: len(w.timers), desc: desc, armed: w.vtime}
	w.timers = append(w.timers, t)
	return t
}

func (w *World) liveTimers() []*timerObj {
	var res []*timerObj
	for _, t := range w.timers {
		if !t.fired && !t.stopped {
			res = append(res, t)
		}
	}
	return res
}

func (w *World) fireTimer(t *timerObj) {
	t.fired = true
	if optrace {
		w.log = append(w.log, fmt.Sprintf("fire timer #%d %s dur=%dms armed=%dms now=%dms", t.id, t.desc, t.dur/1e6, t.armed/1e6, w.vtime/1e6))
	}
	if t.ch != nil && len(t.ch.buf) < t.ch.cap {
		t.ch.buf = append(t.ch.buf, zero(t.ch.et))
		t.ch.bufVC = append(t.ch.bufVC, nil)
	}
	if t.onFire != nil {
		t.onFire()
	}
	if t.fn != nil {
		nt := w.newThread(nil, "timer:"+t.desc)
		w.invokeValue(nt, t.fn, nil, func(Value) {}, nil)
		w.started = append(w.started, nt)
	}
}

// ---- independence of pending operations (for sleep sets) ---------------------------------------

// opObjects lists the synchronisation objects an operation touches; ok=false means "unknown: treat as
// dependent with everything" (yields, atomics, context cancellation, timers).
func opObjects(op *pendingOp) (objs []any, ok bool) {
	if op == nil {
		return nil, false
	}
	if op.so != nil {
		objs = append(objs, op.so)
	}
	if op.so2 != nil {
		objs = append(objs, op.so2)
	}
	if op.ch != nil {
		objs = append(objs, op.ch)
	}
	for _, c := range op.cases {
		if c.ch != nil {
			objs = append(objs, c.ch)
		}
	}
	if op.kind == opOnceWait {
		objs = append(objs, op.val)
	}
	return objs, len(objs) > 0
}

func independentOps(a, b *pendingOp) bool {
	oa, ok1 := opObjects(a)
	ob, ok2 := opObjects(b)
	if !ok1 || !ok2 {
		return false
	}
	for _, x := range oa {
		for _, y := range ob {
			if x == y {
				if a.reader && b.reader {
					continue
				}
				return false
			}
		}
	}
	return true
}

type arriveStep struct{ t *Thread }

// runFresh runs newly created threads to their first visible operation (spawning commutes with everything)
// and granted threads through their operation.
func (w *World) runFresh() {
	for {
		progress := false
		for i := 0; i < len(w.threads); i++ {
			t := w.threads[i]
			if t.done {
				continue
			}
			if (t.pending != nil && t.granted) || (t.pending == nil && !t.started) {
				t.started = true
				w.runThread(t)
				progress = true
				if t.crashed {
					w.threadCrashed(t)
				}
			}
		}
		if !progress {
			return
		}
	}
}

// ---- the scheduler loop -----------------------------------------------------------------------

// runQuiescent runs every thread that is not parked at a visible operation until all are.
func (w *World) runQuiescent() {
	for {
		progress := false
		for i := 0; i < len(w.threads); i++ {
			t := w.threads[i]
			if t.done || (t.pending != nil && !t.granted) {
				continue
			}
			w.runThread(t)
			progress = true
			if t.crashed {
				w.threadCrashed(t)
			}
		}
		if !progress {
			return
		}
	}
}

func (w *World) threadCrashed(t *Thread) {
	msg := w.panicMessage(t.result)
	w.log = append(w.log, "panic at "+w.lastPanicLoc)
	label := "panic: " + msg
	w.reportViolation("panic", label, "")
	panic(pathEnd{kind: "violation", msg: label})
}

func (w *World) schedule(main *Thread) {
	var cur *Thread = main
	sleep := map[*Thread]bool{}
	for {
		var arriving []*Thread
		if w.eng.cfg.LazyArrive {
			// threads that completed an operation and have not reached their next one yet
			w.runFresh()
			for _, t := range w.threads {
				if !t.done && t.pending == nil {
					arriving = append(arriving, t)
				}
			}
		} else {
			w.runQuiescent()
		}
		if main.done {
			return
		}
		var en []*Thread
		curEnabled := false
		for _, t := range w.threads {
			if !t.done && t.pending != nil && w.enabled(t) {
				if t == cur {
					curEnabled = true
				} else {
					en = append(en, t)
				}
			}
		}
		timers := w.liveTimers()
		if w.eng.cfg.Timers == "never" {
			timers = nil
		}
		if !curEnabled && len(en) == 0 && len(arriving) == 0 {
			if len(timers) > 0 {
				// nothing else can run: time passes; the timers with the shortest duration fire first
				// virtual time: a timer is due at (virtual time when it was armed) + its duration; computation
				// takes no time, time advances to the next deadline only when nothing else can run
				min := int64(-1)
				for _, t := range timers {
					if d := t.deadline(); min < 0 || d < min {
						min = d
					}
				}
				var first []*timerObj
				for _, t := range timers {
					if t.deadline() == min {
						first = append(first, t)
					}
				}
				k := w.choose(len(first), DSched)
				if min > w.vtime && min < math.MaxInt64-1 {
					w.vtime = min
				}
				w.fireTimer(first[k])
				continue
			}
			// deadlock: main is not done and nothing can run
			desc := ""
			for _, t := range w.threads {
				if !t.done && t.pending != nil {
					fr := t.top()
					loc := ""
					if fr != nil {
						loc = fr.fn.String() + fr.posString(w.eng)
					}
					desc += fmt.Sprintf("[T%d %s blocked on %s at %s] ", t.id, t.name, t.pending.desc, loc)
				}
			}
			if w.eng.cfg.DeadlockOK {
				panic(pathEnd{kind: "deadlock", msg: desc})
			}
			w.log = append(w.log, "DEADLOCK "+desc)
			w.reportViolation("deadlock", "deadlock", "")
			panic(pathEnd{kind: "violation", msg: "deadlock: " + desc})
		}
		// options: current thread first (no pre-emption), then the others, then eager timers;
		// threads in the sleep set are not offered (their operation commutes with everything executed
		// since a sibling branch explored it first)
		var opts []any
		curArriving := false
		for _, t := range arriving {
			if t == cur {
				curArriving = true
			}
		}
		if curArriving {
			opts = append(opts, arriveStep{cur})
			curEnabled = true
		} else if curEnabled && !sleep[cur] {
			opts = append(opts, cur)
		}
		canPreempt := !curEnabled || w.preempts < w.eng.cfg.Preempt || (sleep[cur] && !curArriving)
		if canPreempt {
			for _, t := range en {
				if !sleep[t] {
					opts = append(opts, t)
				}
			}
			for _, t := range arriving {
				if t != cur {
					opts = append(opts, arriveStep{t})
				}
			}
			if w.eng.cfg.Timers == "eager" {
				for _, t := range timers {
					opts = append(opts, t)
				}
			}
		}
		if len(opts) == 0 {
			// every enabled operation is asleep: this interleaving is equivalent to one explored elsewhere
			panic(pathEnd{kind: "pruned"})
		}
		k := w.choose(len(opts), DSched)
		if curEnabled && (!sleep[cur] || curArriving) && k != 0 {
			w.preempts++
		}
		switch o := opts[k].(type) {
		case arriveStep:
			// running on to the next visible operation may be observed by non-blocking operations of
			// others (select with default, TryLock): conservatively wake every sleeping thread
			sleep = map[*Thread]bool{}
			cur = o.t
			w.runThread(o.t)
			if o.t.crashed {
				w.threadCrashed(o.t)
			}
		case *Thread:
			if optrace && o.pending != nil {
				loc := ""
				if fr := o.top(); fr != nil {
					loc = fr.fn.String() + fr.posString(w.eng)
				}
				w.log = append(w.log, fmt.Sprintf("T%d %s: %s at %s", o.id, o.name, o.pending.desc, loc))
			}
			if w.eng.cfg.SleepSets {
				ns := map[*Thread]bool{}
				for u := range sleep {
					if !u.done && u.pending != nil && independentOps(u.pending, o.pending) {
						ns[u] = true
					}
				}
				// An earlier sibling u (explored first from this node) may sleep here only if the schedule that
				// represents this branch in u's subtree - u's operation, then a switch to o - is itself within the
				// pre-emption bound. Continuing the current thread is the free option, so the current thread may
				// always sleep; for any other u the representative pays for one more switch (away from u, which is
				// taken to be still enabled after its operation) than this branch does. Without this test the
				// reduction and the bound together lose schedules that are within the bound (seed C15-m5).
				for j := 0; j < k; j++ {
					if u, ok := opts[j].(*Thread); ok && independentOps(u.pending, o.pending) {
						if (u == cur && curEnabled) || w.preempts+1 <= w.eng.cfg.Preempt || !w.eng.cfg.SleepBound {
							ns[u] = true
						}
					}
				}
				sleep = ns
			}
			o.granted = true
			cur = o
		case *timerObj:
			sleep = map[*Thread]bool{}
			w.fireTimer(o)
		}
	}
}
