package main

import (
	"fmt"
	"go/token"
	"go/types"
	"math"
	"sort"
	"strconv"
	"strings"
	"unicode"

	"golang.org/x/tools/go/ssa"
)

type intrinsicFn func(w *World, th *Thread, fn *ssa.Function, args []Value) Value

// pushCall asks callFunction to invoke an interpreted function and pass (then(result)) on.
type pushCall struct {
	fn   Value
	args []Value
	then func(Value) Value
}

var intrinsics = map[string]intrinsicFn{}

const vrtPkg = "github.com/AliceO2Group/Control/zz_vrt"

func concStr(w *World, v Value, what string) string {
	s, ok := normStr(v).(string)
	if !ok {
		panic(w.unsupported("%s needs a concrete string, got %s", what, show(v)))
	}
	return s
}

func init() {
	reg := func(name string, f intrinsicFn) { intrinsics[name] = f }

	// ---- vrt: harness runtime ----
	intKinds := map[string]struct {
		kind string
		w    int
	}{
		"Int": {"int", 64}, "Int64": {"int64", 64}, "Int32": {"int32", 32}, "Int16": {"int16", 16}, "Int8": {"int8", 8},
		"Uint": {"uint64", 64}, "Uint64": {"uint64", 64}, "Uint32": {"uint32", 32}, "Uint16": {"uint16", 16}, "Uint8": {"uint8", 8}, "Byte": {"uint8", 8},
	}
	for n, k := range intKinds {
		k := k
		reg(vrtPkg+"."+n, func(w *World, th *Thread, fn *ssa.Function, args []Value) Value {
			return w.newInput(concStr(w, args[0], "vrt name"), k.kind, sortBV(k.w))
		})
	}
	reg(vrtPkg+".Bool", func(w *World, th *Thread, fn *ssa.Function, args []Value) Value {
		return w.newInput(concStr(w, args[0], "vrt name"), "bool", sortBool)
	})
	reg(vrtPkg+".Float64", func(w *World, th *Thread, fn *ssa.Function, args []Value) Value {
		v := w.newInput(concStr(w, args[0], "vrt name"), "float64", sortFP)
		// exclude NaN and infinities: resource quantities are finite numbers
		if t, ok := v.(*Term); ok {
			w.assertPC(w.tf.def(sortBool, "(not (or (fp.isNaN "+t.S+") (fp.isInfinite "+t.S+")))"))
		}
		return v
	})
	reg(vrtPkg+".String", func(w *World, th *Thread, fn *ssa.Function, args []Value) Value {
		return w.newInput(concStr(w, args[0], "vrt name"), "string", sortString)
	})
	reg(vrtPkg+".Bytes", func(w *World, th *Thread, fn *ssa.Function, args []Value) Value {
		name := concStr(w, args[0], "vrt name")
		n, ok := args[1].(int64)
		if !ok {
			// a symbolic length is enumerated (forks), lengths above 64 are not supported
			n = int64(w.concretizeIndex(args[1], 65))
		}
		nm := w.uniqueName(name)
		b := make(BStr, n)
		for i := range b {
			b[i] = w.newInput(fmt.Sprintf("%s!%d", nm, i), "uint8", sortBV(8))
		}
		return normStr(b)
	})
	reg(vrtPkg+".IntRange", func(w *World, th *Thread, fn *ssa.Function, args []Value) Value {
		t := w.newInput(concStr(w, args[0], "vrt name"), "int", sortBV(64))
		w.vAssume(w.and(w.binop(token.LEQ, i64, args[1], t), w.binop(token.LEQ, i64, t, args[2])))
		return t
	})
	reg(vrtPkg+".Choose", func(w *World, th *Thread, fn *ssa.Function, args []Value) Value {
		name := w.uniqueName(concStr(w, args[0], "vrt name"))
		n, ok := args[1].(int64)
		if !ok {
			panic(w.unsupported("vrt.Choose with symbolic arity"))
		}
		k := w.choose(int(n), DChoose)
		w.inputs = append(w.inputs, &inputVar{name: name, kind: "choose", conc: int64(k)})
		return int64(k)
	})
	reg(vrtPkg+".Assume", func(w *World, th *Thread, fn *ssa.Function, args []Value) Value {
		w.vAssume(args[0])
		return nil
	})
	reg(vrtPkg+".Assert", func(w *World, th *Thread, fn *ssa.Function, args []Value) Value {
		w.vAssert(args[0], concStr(w, args[1], "assert label"))
		return nil
	})
	reg(vrtPkg+".Reach", func(w *World, th *Thread, fn *ssa.Function, args []Value) Value {
		w.reached[concStr(w, args[0], "reach label")] = true
		return nil
	})
	reg(vrtPkg+".Yield", func(w *World, th *Thread, fn *ssa.Function, args []Value) Value {
		if !w.visible(th, &pendingOp{kind: opYield, desc: "yield"}) {
			return blocked
		}
		return nil
	})
	reg(vrtPkg+".Tier", func(w *World, th *Thread, fn *ssa.Function, args []Value) Value {
		if w.eng.cfg.Tier == "thorough" {
			return int64(1)
		}
		return int64(0)
	})
	reg(vrtPkg+".Symbolic", func(w *World, th *Thread, fn *ssa.Function, args []Value) Value { return true })
	reg(vrtPkg+".Trace", func(w *World, th *Thread, fn *ssa.Function, args []Value) Value {
		sl := args[0].(Slice)
		parts := make([]string, len(sl.a))
		for i, a := range sl.a {
			parts[i] = w.fmtValue(a, 'v')
		}
		w.log = append(w.log, strings.Join(parts, " "))
		return nil
	})
	reg(vrtPkg+".Obs", func(w *World, th *Thread, fn *ssa.Function, args []Value) Value {
		w.log = append(w.log, "obs "+concStr(w, args[0], "obs name")+"="+w.fmtValue(args[1], 'v'))
		return nil
	})
	reg(vrtPkg+".IsConcrete", func(w *World, th *Thread, fn *ssa.Function, args []Value) Value {
		iv := args[0].(Iface)
		return !isSym(iv.v)
	})

	// ---- sync ----
	reg("(*sync.Mutex).Lock", func(w *World, th *Thread, fn *ssa.Function, args []Value) Value {
		so := w.syncObjFor(args[0].(Ptr), "mutex")
		if !w.visible(th, &pendingOp{kind: opLock, so: so, desc: "Mutex.Lock"}) {
			return blocked
		}
		so.locked = true
		so.owner = th.id
		w.acquire(th, so.vc)
		return nil
	})
	reg("(*sync.Mutex).TryLock", func(w *World, th *Thread, fn *ssa.Function, args []Value) Value {
		so := w.syncObjFor(args[0].(Ptr), "mutex")
		if !w.visible(th, &pendingOp{kind: opYield, so: so, desc: "Mutex.TryLock"}) {
			return blocked
		}
		if so.locked || so.readers > 0 {
			return false
		}
		so.locked = true
		so.owner = th.id
		w.acquire(th, so.vc)
		return true
	})
	unlock := func(w *World, th *Thread, fn *ssa.Function, args []Value) Value {
		so := w.syncObjFor(args[0].(Ptr), "mutex")
		if !w.visible(th, &pendingOp{kind: opYield, so: so, desc: "Unlock"}) {
			return blocked
		}
		if !so.locked {
			panic(goPanic{"fatal error: sync: unlock of unlocked mutex"})
		}
		so.locked = false
		so.owner = -1
		w.release(th, &so.vc)
		return nil
	}
	reg("(*sync.Mutex).Unlock", unlock)
	reg("(*sync.RWMutex).Lock", intrinsics["(*sync.Mutex).Lock"])
	reg("(*sync.RWMutex).TryLock", intrinsics["(*sync.Mutex).TryLock"])
	reg("(*sync.RWMutex).Unlock", unlock)
	reg("(*sync.RWMutex).RLock", func(w *World, th *Thread, fn *ssa.Function, args []Value) Value {
		so := w.syncObjFor(args[0].(Ptr), "mutex")
		if !w.visible(th, &pendingOp{kind: opRLock, so: so, reader: true, desc: "RWMutex.RLock"}) {
			return blocked
		}
		so.readers++
		w.acquire(th, so.vc)
		return nil
	})
	reg("(*sync.RWMutex).TryRLock", func(w *World, th *Thread, fn *ssa.Function, args []Value) Value {
		so := w.syncObjFor(args[0].(Ptr), "mutex")
		if !w.visible(th, &pendingOp{kind: opYield, so: so, reader: true, desc: "RWMutex.TryRLock"}) {
			return blocked
		}
		if so.locked {
			return false
		}
		so.readers++
		w.acquire(th, so.vc)
		return true
	})
	reg("(*sync.RWMutex).RUnlock", func(w *World, th *Thread, fn *ssa.Function, args []Value) Value {
		so := w.syncObjFor(args[0].(Ptr), "mutex")
		if !w.visible(th, &pendingOp{kind: opYield, so: so, reader: true, desc: "RWMutex.RUnlock"}) {
			return blocked
		}
		if so.readers <= 0 {
			panic(goPanic{"fatal error: sync: RUnlock of unlocked RWMutex"})
		}
		so.readers--
		w.release(th, &so.vc)
		return nil
	})
	reg("(*sync.WaitGroup).Add", func(w *World, th *Thread, fn *ssa.Function, args []Value) Value {
		so := w.syncObjFor(args[0].(Ptr), "wg")
		d, ok := args[1].(int64)
		if !ok {
			panic(w.unsupported("WaitGroup.Add(symbolic)"))
		}
		so.count += d
		if so.count < 0 {
			panic(goPanic{"sync: negative WaitGroup counter"})
		}
		w.release(th, &so.vc)
		return nil
	})
	reg("(*sync.WaitGroup).Done", func(w *World, th *Thread, fn *ssa.Function, args []Value) Value {
		so := w.syncObjFor(args[0].(Ptr), "wg")
		if !w.visible(th, &pendingOp{kind: opYield, so: so, desc: "WaitGroup.Done"}) {
			return blocked
		}
		so.count--
		if so.count < 0 {
			panic(goPanic{"sync: negative WaitGroup counter"})
		}
		w.release(th, &so.vc)
		return nil
	})
	reg("(*sync.WaitGroup).Wait", func(w *World, th *Thread, fn *ssa.Function, args []Value) Value {
		so := w.syncObjFor(args[0].(Ptr), "wg")
		if !w.visible(th, &pendingOp{kind: opWGWait, so: so, desc: "WaitGroup.Wait"}) {
			return blocked
		}
		w.acquire(th, so.vc)
		return nil
	})
	reg("sync.NewCond", func(w *World, th *Thread, fn *ssa.Function, args []Value) Value {
		// build the real struct so that c.L is accessible
		ct := fn.Signature.Results().At(0).Type().(*types.Pointer).Elem()
		p := new(Value)
		s := zero(ct).(Struct)
		st := ct.Underlying().(*types.Struct)
		for i := 0; i < st.NumFields(); i++ {
			if st.Field(i).Name() == "L" {
				s[i] = args[0]
			}
		}
		*p = s
		return Ptr(p)
	})
	condL := func(w *World, p Ptr) (*syncObj, Ptr) {
		s := (*p).(Struct)
		for _, f := range s {
			if iv, ok := f.(Iface); ok && iv.t != nil {
				mp, ok := iv.v.(Ptr)
				if !ok {
					break
				}
				// *sync.Mutex or *sync.RWMutex (or rlocker: unsupported)
				return w.syncObjFor(mp, "mutex"), mp
			}
		}
		panic(w.unsupported("sync.Cond with unsupported Locker"))
	}
	reg("(*sync.Cond).Wait", func(w *World, th *Thread, fn *ssa.Function, args []Value) Value {
		p := args[0].(Ptr)
		mu, _ := condL(w, p)
		co := w.syncObjFor(p, "cond")
		// phase 1: release the mutex and park; phase 2 (after signal): re-acquire
		if th.pending != nil && th.pending.kind == opCondReacq && th.granted {
			th.granted = false
			th.pending = nil
			mu.locked = true
			mu.owner = th.id
			w.acquire(th, mu.vc)
			w.acquire(th, co.vc)
			return nil
		}
		if !w.visible(th, &pendingOp{kind: opYield, so: mu, so2: co, desc: "Cond.Wait(enter)"}) {
			return blocked
		}
		if !mu.locked {
			panic(goPanic{"fatal error: sync: unlock of unlocked mutex"})
		}
		mu.locked = false
		mu.owner = -1
		w.release(th, &mu.vc)
		co.parked = append(co.parked, th)
		th.pending = &pendingOp{kind: opCondWait, so: mu, desc: "Cond.Wait(parked)"}
		return blocked
	})
	wake := func(w *World, th *Thread, co *syncObj, t *Thread) {
		t.pending = &pendingOp{kind: opCondReacq, so: t.pending.so, desc: "Cond.Wait(reacquire)"}
	}
	reg("(*sync.Cond).Signal", func(w *World, th *Thread, fn *ssa.Function, args []Value) Value {
		p := args[0].(Ptr)
		co := w.syncObjFor(p, "cond")
		if !w.visible(th, &pendingOp{kind: opYield, so: co, desc: "Cond.Signal"}) {
			return blocked
		}
		w.release(th, &co.vc)
		if len(co.parked) > 0 {
			k := w.choose(len(co.parked), DSched)
			t := co.parked[k]
			co.parked = append(co.parked[:k:k], co.parked[k+1:]...)
			wake(w, th, co, t)
		}
		return nil
	})
	reg("(*sync.Cond).Broadcast", func(w *World, th *Thread, fn *ssa.Function, args []Value) Value {
		p := args[0].(Ptr)
		co := w.syncObjFor(p, "cond")
		if !w.visible(th, &pendingOp{kind: opYield, so: co, desc: "Cond.Broadcast"}) {
			return blocked
		}
		w.release(th, &co.vc)
		for _, t := range co.parked {
			wake(w, th, co, t)
		}
		co.parked = nil
		return nil
	})
	reg("(*sync.Once).Do", func(w *World, th *Thread, fn *ssa.Function, args []Value) Value {
		p := args[0].(Ptr)
		o := w.onceMap[p]
		if o == nil {
			o = &onceObj{}
			w.onceMap[p] = o
		}
		switch o.state {
		case 2:
			w.acquire(th, o.vc)
			return nil
		case 1:
			if !w.visible(th, &pendingOp{kind: opOnceWait, val: o, desc: "Once.Do(wait)"}) {
				return blocked
			}
			w.acquire(th, o.vc)
			return nil
		}
		o.state = 1
		return pushCall{fn: args[1], then: func(Value) Value {
			o.state = 2
			w.release(th, &o.vc)
			return nil
		}}
	})

	// ---- sync.Map: an engine map per object (no scheduling points; used by libraries as a cache) ----
	smap := func(w *World, p Ptr) *Map {
		key := fmt.Sprintf("syncmap:%p", p)
		if m, ok := w.userData[key].(*Map); ok {
			return m
		}
		m := newMap(types.NewInterfaceType(nil, nil), types.NewInterfaceType(nil, nil))
		w.userData[key] = m
		return m
	}
	reg("(*sync.Map).Load", func(w *World, th *Thread, fn *ssa.Function, args []Value) Value {
		if e := w.mapFind(smap(w, args[0].(Ptr)), args[1]); e != nil {
			return Tuple{e.v, true}
		}
		return Tuple{Iface{}, false}
	})
	reg("(*sync.Map).Store", func(w *World, th *Thread, fn *ssa.Function, args []Value) Value {
		w.mapStore(smap(w, args[0].(Ptr)), args[1], args[2])
		return nil
	})
	reg("(*sync.Map).LoadOrStore", func(w *World, th *Thread, fn *ssa.Function, args []Value) Value {
		m := smap(w, args[0].(Ptr))
		if e := w.mapFind(m, args[1]); e != nil {
			return Tuple{e.v, true}
		}
		w.mapStore(m, args[1], args[2])
		return Tuple{args[2], false}
	})
	reg("(*sync.Map).Delete", func(w *World, th *Thread, fn *ssa.Function, args []Value) Value {
		w.mapDelete(smap(w, args[0].(Ptr)), args[1])
		return nil
	})
	reg("(*sync.Map).Range", func(w *World, th *Thread, fn *ssa.Function, args []Value) Value {
		m := smap(w, args[0].(Ptr))
		for _, e := range append([]*mapEntry{}, m.entries...) {
			if !w.branch(w.callValueSync(args[1], []Value{e.k, e.v})) {
				break
			}
		}
		return nil
	})

	// ---- sync/atomic (atomic within an invisible segment; optionally a scheduling point) ----
	atomicPoint := func(w *World, th *Thread) bool {
		if !w.eng.cfg.AtomicsVisible {
			return true
		}
		return w.visible(th, &pendingOp{kind: opYield, desc: "atomic"})
	}
	for _, ty := range []string{"Int32", "Int64", "Uint32", "Uint64", "Uintptr"} {
		ty := ty
		var bt types.Type
		switch ty {
		case "Int32":
			bt = types.Typ[types.Int32]
		case "Int64":
			bt = types.Typ[types.Int64]
		case "Uint32":
			bt = types.Typ[types.Uint32]
		case "Uint64":
			bt = types.Typ[types.Uint64]
		case "Uintptr":
			bt = types.Typ[types.Uintptr]
		}
		reg("sync/atomic.Load"+ty, func(w *World, th *Thread, fn *ssa.Function, args []Value) Value {
			if !atomicPoint(w, th) {
				return blocked
			}
			return *(args[0].(Ptr))
		})
		reg("sync/atomic.Store"+ty, func(w *World, th *Thread, fn *ssa.Function, args []Value) Value {
			if !atomicPoint(w, th) {
				return blocked
			}
			*(args[0].(Ptr)) = args[1]
			return nil
		})
		reg("sync/atomic.Add"+ty, func(w *World, th *Thread, fn *ssa.Function, args []Value) Value {
			if !atomicPoint(w, th) {
				return blocked
			}
			p := args[0].(Ptr)
			*p = w.binop(token.ADD, bt, *p, args[1])
			return *p
		})
		reg("sync/atomic.Swap"+ty, func(w *World, th *Thread, fn *ssa.Function, args []Value) Value {
			if !atomicPoint(w, th) {
				return blocked
			}
			p := args[0].(Ptr)
			old := *p
			*p = args[1]
			return old
		})
		reg("sync/atomic.CompareAndSwap"+ty, func(w *World, th *Thread, fn *ssa.Function, args []Value) Value {
			if !atomicPoint(w, th) {
				return blocked
			}
			p := args[0].(Ptr)
			if w.branch(w.equals(bt, *p, args[1])) {
				*p = args[2]
				return true
			}
			return false
		})
		// method forms on atomic.Int32 etc. (struct{_ noCopy; v T}): value is the last field
		cell := func(p Ptr) Ptr {
			s := (*p).(Struct)
			return &s[len(s)-1]
		}
		reg("(*sync/atomic."+ty+").Load", func(w *World, th *Thread, fn *ssa.Function, args []Value) Value {
			if !atomicPoint(w, th) {
				return blocked
			}
			return *cell(args[0].(Ptr))
		})
		reg("(*sync/atomic."+ty+").Store", func(w *World, th *Thread, fn *ssa.Function, args []Value) Value {
			if !atomicPoint(w, th) {
				return blocked
			}
			*cell(args[0].(Ptr)) = args[1]
			return nil
		})
		reg("(*sync/atomic."+ty+").Add", func(w *World, th *Thread, fn *ssa.Function, args []Value) Value {
			if !atomicPoint(w, th) {
				return blocked
			}
			c := cell(args[0].(Ptr))
			*c = w.binop(token.ADD, bt, *c, args[1])
			return *c
		})
		reg("(*sync/atomic."+ty+").CompareAndSwap", func(w *World, th *Thread, fn *ssa.Function, args []Value) Value {
			if !atomicPoint(w, th) {
				return blocked
			}
			c := cell(args[0].(Ptr))
			if w.branch(w.equals(bt, *c, args[1])) {
				*c = args[2]
				return true
			}
			return false
		})
	}
	reg("(*sync/atomic.Bool).Load", func(w *World, th *Thread, fn *ssa.Function, args []Value) Value {
		s := (*(args[0].(Ptr))).(Struct)
		v := s[len(s)-1]
		if c, ok := v.(int64); ok {
			return c != 0
		}
		return v
	})
	reg("(*sync/atomic.Bool).Store", func(w *World, th *Thread, fn *ssa.Function, args []Value) Value {
		s := (*(args[0].(Ptr))).(Struct)
		if b, ok := args[1].(bool); ok {
			if b {
				s[len(s)-1] = int64(1)
			} else {
				s[len(s)-1] = int64(0)
			}
		} else {
			s[len(s)-1] = w.ite(args[1], int64(1), int64(0), types.Typ[types.Uint32])
		}
		return nil
	})

	// ---- errors / fmt ----
	reg("fmt.Sprintf", func(w *World, th *Thread, fn *ssa.Function, args []Value) Value {
		return w.sprintf(args[0], args[1].(Slice).a)
	})
	reg("fmt.Errorf", func(w *World, th *Thread, fn *ssa.Function, args []Value) Value {
		msg := w.sprintf(args[0], args[1].(Slice).a)
		// find %w operand
		var wrapped Value
		if f, ok := args[0].(string); ok && strings.Contains(f, "%w") {
			for _, a := range args[1].(Slice).a {
				if iv, ok := a.(Iface); ok && iv.t != nil && w.eng.implements(iv.t, w.eng.errorIface()) {
					wrapped = iv
				}
			}
		}
		return w.eng.makeError(w, msg, wrapped)
	})
	reg("fmt.Sprint", func(w *World, th *Thread, fn *ssa.Function, args []Value) Value {
		var r Value = ""
		for _, a := range args[0].(Slice).a {
			r = w.stringBinop(token.ADD, r, w.fmtValueV(a, 'v'))
		}
		return r
	})
	reg("fmt.Sprintln", func(w *World, th *Thread, fn *ssa.Function, args []Value) Value {
		var r Value = ""
		for i, a := range args[0].(Slice).a {
			if i > 0 {
				r = w.stringBinop(token.ADD, r, " ")
			}
			r = w.stringBinop(token.ADD, r, w.fmtValueV(a, 'v'))
		}
		return w.stringBinop(token.ADD, r, "\n")
	})
	for _, n := range []string{"fmt.Println", "fmt.Printf", "fmt.Print", "fmt.Fprintf", "fmt.Fprintln", "fmt.Fprint"} {
		n := n
		reg(n, func(w *World, th *Thread, fn *ssa.Function, args []Value) Value {
			return Tuple{int64(0), Iface{}}
		})
	}
	reg("errors.New", func(w *World, th *Thread, fn *ssa.Function, args []Value) Value {
		return w.eng.makeError(w, args[0], nil)
	})

	reg("errors.Is", func(w *World, th *Thread, fn *ssa.Function, args []Value) Value {
		err, target := args[0].(Iface), args[1].(Iface)
		for depth := 0; depth < 20; depth++ {
			if err.t == nil {
				return target.t == nil
			}
			if target.t != nil && types.Identical(err.t, target.t) && types.Comparable(err.t) {
				if w.branch(w.equals(err.t, err.v, target.v)) {
					return true
				}
			}
			if m := w.eng.lookupMethodByName(err.t, "Is"); m != nil && m.Signature.Params().Len() == 1 {
				if w.branch(w.callSync(m, []Value{err.v, target})) {
					return true
				}
			}
			m := w.eng.lookupMethodByName(err.t, "Unwrap")
			if m == nil || m.Signature.Results().Len() != 1 {
				return false
			}
			r := w.callSync(m, []Value{err.v})
			next, ok := r.(Iface)
			if !ok {
				// Unwrap() []error
				if sl, ok := r.(Slice); ok {
					for _, e := range sl.a {
						if w.branch(intrinsics["errors.Is"](w, th, fn, []Value{e, target})) {
							return true
						}
					}
				}
				return false
			}
			err = next
		}
		return false
	})
	reg("errors.As", func(w *World, th *Thread, fn *ssa.Function, args []Value) Value {
		err, target := args[0].(Iface), args[1].(Iface)
		if target.t == nil {
			panic(goPanic{"errors: target cannot be nil"})
		}
		pt, ok := target.t.(*types.Pointer)
		if !ok {
			panic(goPanic{"errors: target must be a non-nil pointer"})
		}
		et := pt.Elem()
		dst := target.v.(Ptr)
		for depth := 0; depth < 20; depth++ {
			if err.t == nil {
				return false
			}
			if it, isI := et.Underlying().(*types.Interface); isI {
				if w.eng.implements(err.t, it) {
					*dst = err
					return true
				}
			} else if types.Identical(err.t, et) {
				storeVal(dst, err.v)
				return true
			}
			m := w.eng.lookupMethodByName(err.t, "Unwrap")
			if m == nil || m.Signature.Results().Len() != 1 {
				return false
			}
			next, ok := w.callSync(m, []Value{err.v}).(Iface)
			if !ok {
				return false
			}
			err = next
		}
		return false
	})
	reg("errors.Join", func(w *World, th *Thread, fn *ssa.Function, args []Value) Value {
		var msg Value = ""
		n := 0
		var first Value
		for _, e := range args[0].(Slice).a {
			iv := e.(Iface)
			if iv.t == nil {
				continue
			}
			if n > 0 {
				msg = w.stringBinop(token.ADD, msg, "\n")
			} else {
				first = iv
			}
			msg = w.stringBinop(token.ADD, msg, w.errorStringV(iv))
			n++
		}
		if n == 0 {
			return Iface{}
		}
		return w.eng.makeError(w, msg, first)
	})

	// ---- strconv (native on concrete; SMT on symbolic) ----
	reg("strconv.Itoa", func(w *World, th *Thread, fn *ssa.Function, args []Value) Value {
		return w.formatInt(args[0], intInfo{64, true})
	})
	reg("strconv.FormatInt", func(w *World, th *Thread, fn *ssa.Function, args []Value) Value {
		if b, ok := args[1].(int64); !ok || b != 10 {
			if c, ok := args[0].(int64); ok && ok {
				return strconv.FormatInt(c, int(args[1].(int64)))
			}
			panic(w.unsupported("FormatInt base != 10 on symbolic"))
		}
		return w.formatInt(args[0], intInfo{64, true})
	})
	reg("strconv.FormatUint", func(w *World, th *Thread, fn *ssa.Function, args []Value) Value {
		if b, ok := args[1].(int64); !ok || b != 10 {
			if c, ok := args[0].(int64); ok {
				return strconv.FormatUint(uint64(c), int(args[1].(int64)))
			}
			panic(w.unsupported("FormatUint base != 10 on symbolic"))
		}
		return w.formatInt(args[0], intInfo{64, false})
	})
	reg("strconv.FormatBool", func(w *World, th *Thread, fn *ssa.Function, args []Value) Value {
		if w.branch(args[0]) {
			return "true"
		}
		return "false"
	})
	reg("strconv.Quote", func(w *World, th *Thread, fn *ssa.Function, args []Value) Value {
		if s, ok := normStr(args[0]).(string); ok {
			return strconv.Quote(s)
		}
		return w.stringBinop(token.ADD, w.stringBinop(token.ADD, "\"", args[0]), "\"")
	})

	// ---- strings: concrete fast paths, symbolic encodings; otherwise fall through to the SSA ----
	// (registered in strings.go)

	// ---- math ----
	reg("math.Min", func(w *World, th *Thread, fn *ssa.Function, args []Value) Value {
		x, xok := args[0].(float64)
		y, yok := args[1].(float64)
		if xok && yok {
			return math.Min(x, y)
		}
		return w.tf.def(sortFP, "(fp.min "+w.fpTerm(args[0]).S+" "+w.fpTerm(args[1]).S+")")
	})
	reg("math.Max", func(w *World, th *Thread, fn *ssa.Function, args []Value) Value {
		x, xok := args[0].(float64)
		y, yok := args[1].(float64)
		if xok && yok {
			return math.Max(x, y)
		}
		return w.tf.def(sortFP, "(fp.max "+w.fpTerm(args[0]).S+" "+w.fpTerm(args[1]).S+")")
	})
	reg("math.Inf", func(w *World, th *Thread, fn *ssa.Function, args []Value) Value {
		return math.Inf(int(args[0].(int64)))
	})
	reg("math.Float64bits", func(w *World, th *Thread, fn *ssa.Function, args []Value) Value {
		if f, ok := args[0].(float64); ok {
			return int64(math.Float64bits(f))
		}
		panic(w.unsupported("Float64bits(symbolic)"))
	})
	reg("math.Float64frombits", func(w *World, th *Thread, fn *ssa.Function, args []Value) Value {
		if c, ok := args[0].(int64); ok {
			return math.Float64frombits(uint64(c))
		}
		panic(w.unsupported("Float64frombits(symbolic)"))
	})
	reg("math.IsNaN", func(w *World, th *Thread, fn *ssa.Function, args []Value) Value {
		if f, ok := args[0].(float64); ok {
			return math.IsNaN(f)
		}
		return w.tf.def(sortBool, "(fp.isNaN "+args[0].(*Term).S+")")
	})
	reg("math.Floor", func(w *World, th *Thread, fn *ssa.Function, args []Value) Value {
		if f, ok := args[0].(float64); ok {
			return math.Floor(f)
		}
		return w.tf.def(sortFP, "(fp.roundToIntegral RTN "+args[0].(*Term).S+")")
	})
	reg("math.Abs", func(w *World, th *Thread, fn *ssa.Function, args []Value) Value {
		if f, ok := args[0].(float64); ok {
			return math.Abs(f)
		}
		return w.tf.def(sortFP, "(fp.abs "+args[0].(*Term).S+")")
	})

	// ---- sort: interpreted from SSA except the reflection-based Slice ----
	reg("sort.Slice", sortSliceIntrinsic(false))
	reg("sort.SliceStable", sortSliceIntrinsic(true))

	// ---- runtime-ish ----
	reg("runtime.Gosched", intrinsics[vrtPkg+".Yield"])
	reg("runtime.GC", func(w *World, th *Thread, fn *ssa.Function, args []Value) Value { return nil })
	reg("runtime.KeepAlive", func(w *World, th *Thread, fn *ssa.Function, args []Value) Value { return nil })
	reg("runtime.SetFinalizer", func(w *World, th *Thread, fn *ssa.Function, args []Value) Value { return nil })
	reg("runtime/debug.Stack", func(w *World, th *Thread, fn *ssa.Function, args []Value) Value { return Slice{nil: true} })
	reg("runtime/debug.PrintStack", func(w *World, th *Thread, fn *ssa.Function, args []Value) Value { return nil })
	reg("os.Getenv", func(w *World, th *Thread, fn *ssa.Function, args []Value) Value { return "" })
	reg("os.Hostname", func(w *World, th *Thread, fn *ssa.Function, args []Value) Value {
		return Tuple{"verifhost", Iface{}}
	})
	reg("os.Getpid", func(w *World, th *Thread, fn *ssa.Function, args []Value) Value { return int64(4242) })

	// reflect.TypeOf: dynamic type token
	reg("reflect.TypeOf", func(w *World, th *Thread, fn *ssa.Function, args []Value) Value {
		iv := args[0].(Iface)
		if iv.t == nil {
			return Iface{}
		}
		// one descriptor per type, so that reflect.TypeOf(a) == reflect.TypeOf(b) iff the dynamic types are identical
		cache, _ := w.userData["rtypes"].(map[string]*Opaque)
		if cache == nil {
			cache = map[string]*Opaque{}
			w.userData["rtypes"] = cache
		}
		k := typeKey(iv.t)
		o := cache[k]
		if o == nil {
			o = &Opaque{kind: "rtype", v: iv.t}
			cache[k] = o
		}
		return Iface{t: w.eng.opaqueType("reflect.rtype"), v: o}
	})

	// fresh, pairwise distinct identifiers
	reg("github.com/rs/xid.New", func(w *World, th *Thread, fn *ssa.Function, args []Value) Value {
		n, _ := w.userData["xid"].(int)
		n++
		w.userData["xid"] = n
		a := make(Array, 12)
		for i := range a {
			a[i] = int64(0)
		}
		a[10], a[11] = int64(n>>8&0xff), int64(n&0xff)
		a[0] = int64(0x42)
		return a
	})
	uuidBytes := func(w *World) []Value {
		n, _ := w.userData["uuid"].(int)
		n++
		w.userData["uuid"] = n
		a := make([]Value, 16)
		for i := range a {
			a[i] = int64(0)
		}
		a[0], a[6], a[8] = int64(0x56), int64(0x40), int64(0x80)
		a[14], a[15] = int64(n>>8&0xff), int64(n&0xff)
		return a
	}
	reg("github.com/pborman/uuid.NewUUID", func(w *World, th *Thread, fn *ssa.Function, args []Value) Value {
		return Slice{a: uuidBytes(w)}
	})
	reg("github.com/pborman/uuid.NewRandom", func(w *World, th *Thread, fn *ssa.Function, args []Value) Value {
		return Slice{a: uuidBytes(w)}
	})
	reg("github.com/google/uuid.New", func(w *World, th *Thread, fn *ssa.Function, args []Value) Value {
		return Array(uuidBytes(w))
	})
	reg("github.com/google/uuid.NewString", func(w *World, th *Thread, fn *ssa.Function, args []Value) Value {
		n, _ := w.userData["uuid"].(int)
		n++
		w.userData["uuid"] = n
		return fmt.Sprintf("56000000-0000-4000-8000-%012d", n)
	})
	reg(modPath+"/common/utils/uid.New", func(w *World, th *Thread, fn *ssa.Function, args []Value) Value {
		n, _ := w.userData["uid"].(int)
		n++
		w.userData["uid"] = n
		return fmt.Sprintf("2verifUID%02d", n)
	})
	reg(modPath+"/common/utils/uid.FromString", func(w *World, th *Thread, fn *ssa.Function, args []Value) Value {
		return Tuple{args[0], Iface{}}
	})
	// mergo.Merge(&map, map, mergo.WithOverride): every entry of src replaces dst's (the same 3-line model
	// is compared natively with the real library on every run of the C14 check)
	reg("dario.cat/mergo.Merge", func(w *World, th *Thread, fn *ssa.Function, args []Value) Value {
		dst, ok1 := args[0].(Iface)
		src, ok2 := args[1].(Iface)
		opts, _ := args[2].(Slice)
		if _, isStruct := src.v.(Struct); !ok1 || !ok2 || (len(opts.a) != 1 && !isStruct) {
			panic(w.unsupported("mergo.Merge: only (&map, map, WithOverride) and (&struct, struct) are modelled"))
		}
		dp, ok1 := dst.v.(Ptr)
		if ss, isStruct := src.v.(Struct); isStruct && ok1 && dp != nil {
			// struct into struct without override: zero fields of dst are filled from src
			if ds, ok := (*dp).(Struct); ok && len(ds) == len(ss) {
				mergeStructFill(ds, ss)
				return Iface{}
			}
		}
		sm, ok2 := src.v.(*Map)
		if !ok1 || !ok2 || dp == nil {
			panic(w.unsupported("mergo.Merge on %s / %s: only maps are modelled", show(dst.v), show(src.v)))
		}
		dm, ok := (*dp).(*Map)
		if !ok {
			panic(w.unsupported("mergo.Merge destination is not a map"))
		}
		if sm == nil || len(sm.entries) == 0 {
			return Iface{}
		}
		if dm == nil {
			dm = newMap(sm.kt, sm.vt)
			*dp = dm
		}
		for _, e := range sm.entries {
			w.mapStore(dm, e.k, copyVal(e.v))
		}
		w.stubsSeen["model:mergo.Merge(map,WithOverride)"] = true
		return Iface{}
	})
	// proto.Clone(msg): a deep copy of the message (pointers, slices and maps are duplicated, shared structure
	// inside the message stays shared inside the copy)
	protoClone := func(w *World, th *Thread, fn *ssa.Function, args []Value) Value {
		iv, ok := args[0].(Iface)
		if !ok || iv.t == nil {
			return Iface{}
		}
		w.stubsSeen["model:proto.Clone(deep copy)"] = true
		return Iface{t: iv.t, v: deepCopyValue(iv.v, map[Ptr]Ptr{}, map[*Map]*Map{})}
	}
	reg("github.com/gogo/protobuf/proto.Clone", protoClone)
	reg("github.com/golang/protobuf/proto.Clone", protoClone)
	reg("google.golang.org/protobuf/proto.Clone", protoClone)
	registerTimeIntrinsics(reg)
	registerContextIntrinsics(reg)
	registerStringIntrinsics(reg)
	registerViperIntrinsics(reg)
	registerRegexpIntrinsics(reg)
	_ = unicode.IsSpace
	_ = sort.Ints
}

func isZeroConcrete(v Value) bool {
	switch x := v.(type) {
	case bool:
		return !x
	case int64:
		return x == 0
	case float64:
		return x == 0
	case string:
		return x == ""
	case Ptr:
		return x == nil
	case Slice:
		return x.nil || len(x.a) == 0
	case *Map:
		return x == nil || len(x.entries) == 0
	case Iface:
		return x.t == nil
	}
	return false
}

func mergeStructFill(dst, src Struct) {
	for i := range dst {
		if ds, ok := dst[i].(Struct); ok {
			if ss, ok := src[i].(Struct); ok {
				mergeStructFill(ds, ss)
			}
			continue
		}
		if isZeroConcrete(dst[i]) {
			dst[i] = copyVal(src[i])
		}
	}
}

// sortSliceIntrinsic sorts via insertion sort calling the less closure synchronously (forks on
// symbolic comparisons).
func sortSliceIntrinsic(stable bool) intrinsicFn {
	return func(w *World, th *Thread, fn *ssa.Function, args []Value) Value {
		iv := args[0].(Iface)
		sl, ok := iv.v.(Slice)
		if !ok {
			panic(w.unsupported("sort.Slice on %T", iv.v))
		}
		less := args[1]
		a := sl.a
		for i := 1; i < len(a); i++ {
			for j := i; j > 0; j-- {
				r := w.callValueSync(less, []Value{int64(j), int64(j - 1)})
				if !w.branch(r) {
					break
				}
				a[j], a[j-1] = a[j-1], a[j]
			}
		}
		return nil
	}
}

// formatInt renders an integer in base 10 (symbolic: str.from_int).
func (w *World) formatInt(v Value, ii intInfo) Value {
	if c, ok := v.(int64); ok {
		if ii.signed {
			return strconv.FormatInt(c, 10)
		}
		return strconv.FormatUint(uint64(c), 10)
	}
	t := v.(*Term)
	if !ii.signed {
		r := w.tf.def(sortString, "(str.from_int (bv2nat "+t.S+"))")
		// remember the number behind the text: ParseUint(FormatUint(x)) is x, no string reasoning needed
		if w.fmtOrigin == nil {
			w.fmtOrigin = map[string]*Term{}
		}
		w.fmtOrigin[r.S] = t
		return r
	}
	zero := bvLit(0, t.Sort.W)
	defer func() {
		// remember the number behind the text (see parseUintTerm / ParseInt)
	}()
	r0 := w.tf.def(sortString, fmt.Sprintf("(ite (bvslt %s %s) (str.++ \"-\" (str.from_int (bv2nat (bvneg %s)))) (str.from_int (bv2nat %s)))", t.S, zero, t.S, t.S))
	if w.fmtOriginS == nil {
		w.fmtOriginS = map[string]*Term{}
	}
	w.fmtOriginS[r0.S] = t
	return r0
}

// errorString calls Error() on an error interface value synchronously.
func (w *World) errorString(iv Iface) string {
	v := w.errorStringV(iv)
	if s, ok := normStr(v).(string); ok {
		return s
	}
	return show(v)
}

func (w *World) errorStringV(iv Iface) Value {
	if iv.t == nil {
		return "<nil>"
	}
	if s, ok := iv.v.(Struct); ok && types.Identical(iv.t, w.eng.runtimeErrorType()) {
		return s[0]
	}
	m := w.eng.lookupMethodByName(iv.t, "Error")
	if m == nil {
		return show(iv.v)
	}
	return w.callSync(m, []Value{iv.v})
}

// ---- fmt model ---------------------------------------------------------------------------------

// fmtValueV renders a value for %v / %s / %d; result may be a symbolic string.
func (w *World) fmtValueV(a Value, verb byte) Value {
	switch x := a.(type) {
	case Iface:
		if x.t == nil {
			return "<nil>"
		}
		// error / Stringer
		if verb != 'd' && verb != 'T' {
			if m := w.eng.lookupMethodByName(x.t, "Error"); m != nil && m.Signature.Params().Len() == 0 {
				if p, ok := x.v.(Ptr); ok && p == nil {
					return "<nil>"
				}
				return w.callSync(m, []Value{x.v})
			}
			if m := w.eng.lookupMethodByName(x.t, "String"); m != nil && m.Signature.Params().Len() == 0 && m.Signature.Results().Len() == 1 {
				if p, ok := x.v.(Ptr); ok && p == nil {
					return "<nil>"
				}
				if _, isOp := x.v.(*Opaque); !isOp {
					return w.callSync(m, []Value{x.v})
				}
			}
		}
		if verb == 'T' {
			return types.TypeString(x.t, nil)
		}
		// typed rendering
		if ii, ok := intInfoOf(x.t); ok {
			return w.formatInt(x.v, ii)
		}
		return w.fmtValueV(x.v, verb)
	case string:
		return x
	case BStr, *Term:
		if t, ok := x.(*Term); ok {
			switch t.Sort.K {
			case SString:
				return t
			case SBV:
				return w.formatInt(t, intInfo{t.Sort.W, true})
			case SBool:
				return w.tf.def(sortString, "(ite "+t.S+" \"true\" \"false\")")
			default:
				return w.newInput("fmt!havoc", "string", sortString)
			}
		}
		return x
	case bool:
		return strconv.FormatBool(x)
	case int64:
		return strconv.FormatInt(x, 10)
	case float64:
		return strconv.FormatFloat(x, 'g', -1, 64)
	case Ptr:
		if x == nil {
			return "<nil>"
		}
		return "0xc000000000"
	case Slice:
		var r Value = "["
		for i, e := range x.a {
			if i > 0 {
				r = w.stringBinop(token.ADD, r, " ")
			}
			r = w.stringBinop(token.ADD, r, w.fmtValueV(e, verb))
		}
		return w.stringBinop(token.ADD, r, "]")
	case Struct:
		var r Value = "{"
		for i, e := range x {
			if i > 0 {
				r = w.stringBinop(token.ADD, r, " ")
			}
			r = w.stringBinop(token.ADD, r, w.fmtValueV(e, verb))
		}
		return w.stringBinop(token.ADD, r, "}")
	case *Map:
		if x == nil {
			return "map[]"
		}
		return "map[…]"
	case nil:
		return "<nil>"
	}
	return show(a)
}

func (w *World) fmtValue(a Value, verb byte) string {
	v := w.fmtValueV(a, verb)
	if s, ok := normStr(v).(string); ok {
		return s
	}
	return show(v)
}

// sprintf implements the subset of fmt verbs used for messages. Unknown verbs render with %v.
func (w *World) sprintf(format Value, args []Value) Value {
	f, ok := normStr(format).(string)
	if !ok {
		return w.newInput("fmt!havoc", "string", sortString)
	}
	var out Value = ""
	argi := 0
	var lit strings.Builder
	flush := func() {
		if lit.Len() > 0 {
			out = w.stringBinop(token.ADD, out, lit.String())
			lit.Reset()
		}
	}
	for i := 0; i < len(f); i++ {
		c := f[i]
		if c != '%' {
			lit.WriteByte(c)
			continue
		}
		i++
		if i >= len(f) {
			lit.WriteString("%!(NOVERB)")
			break
		}
		// flags / width / precision are parsed and ignored except for concrete rendering
		start := i
		for i < len(f) && strings.IndexByte("+-# 0123456789.*", f[i]) >= 0 {
			i++
		}
		if i >= len(f) {
			break
		}
		verb := f[i]
		if verb == '%' {
			lit.WriteByte('%')
			continue
		}
		if argi >= len(args) {
			lit.WriteString("%!" + string(verb) + "(MISSING)")
			continue
		}
		a := args[argi]
		argi++
		spec := "%" + f[start:i] + string(verb)
		// concrete scalars: use the real fmt
		if nat, ok := w.nativeScalar(a); ok {
			flush()
			out = w.stringBinop(token.ADD, out, fmt.Sprintf(spec, nat))
			continue
		}
		flush()
		r := w.fmtValueV(a, verb)
		if verb == 'q' {
			r = w.stringBinop(token.ADD, w.stringBinop(token.ADD, "\"", r), "\"")
		}
		out = w.stringBinop(token.ADD, out, r)
	}
	flush()
	return out
}

// nativeScalar converts an interface-wrapped concrete scalar without methods to a Go value.
func (w *World) nativeScalar(a Value) (any, bool) {
	iv, ok := a.(Iface)
	if !ok || iv.t == nil {
		return nil, false
	}
	if _, named := iv.t.(*types.Named); named {
		if w.eng.lookupMethodByName(iv.t, "String") != nil || w.eng.lookupMethodByName(iv.t, "Error") != nil {
			return nil, false
		}
	}
	b := basicOf(iv.t)
	if b == nil {
		return nil, false
	}
	switch x := iv.v.(type) {
	case bool:
		return x, true
	case string:
		return x, true
	case float64:
		return x, true
	case int64:
		ii, _ := intInfoOf(iv.t)
		if !ii.signed {
			return uint64(x), true
		}
		return x, true
	}
	return nil, false
}

// deepCopyValue duplicates everything reachable from v through pointers, slices and maps.
func deepCopyValue(v Value, seen map[Ptr]Ptr, seenMaps map[*Map]*Map) Value {
	switch x := v.(type) {
	case Ptr:
		if x == nil {
			return x
		}
		if n, ok := seen[x]; ok {
			return n
		}
		n := new(Value)
		seen[x] = n
		*n = deepCopyValue(*x, seen, seenMaps)
		return n
	case Struct:
		n := make(Struct, len(x))
		for i, f := range x {
			n[i] = deepCopyValue(f, seen, seenMaps)
		}
		return n
	case Array:
		n := make(Array, len(x))
		for i, f := range x {
			n[i] = deepCopyValue(f, seen, seenMaps)
		}
		return n
	case Slice:
		if x.nil || x.sym != nil {
			return x
		}
		full := x.a[:cap(x.a)]
		na := make([]Value, len(full))
		for i, f := range full {
			na[i] = deepCopyValue(f, seen, seenMaps)
		}
		return Slice{a: na[:len(x.a)]}
	case *Map:
		if x == nil {
			return x
		}
		if n, ok := seenMaps[x]; ok {
			return n
		}
		n := newMap(x.kt, x.vt)
		seenMaps[x] = n
		for _, e := range x.entries {
			n.addEntry(deepCopyValue(e.k, seen, seenMaps), deepCopyValue(e.v, seen, seenMaps))
		}
		return n
	case Iface:
		if x.t == nil {
			return x
		}
		return Iface{t: x.t, v: deepCopyValue(x.v, seen, seenMaps)}
	}
	return v
}
