package main

import (
	"fmt"
	"go/token"
	"go/types"
	"strconv"
	"strings"

	"golang.org/x/tools/go/ssa"
)

// notHandledT tells callFunction to interpret the function's real SSA body.
type notHandledT struct{}

var notHandled = notHandledT{}

func strSliceOf(v Value) ([]string, bool) {
	sl, ok := v.(Slice)
	if !ok {
		return nil, false
	}
	out := make([]string, len(sl.a))
	for i, e := range sl.a {
		s, ok := normStr(e).(string)
		if !ok {
			return nil, false
		}
		out[i] = s
	}
	return out, true
}

func mkStrSlice(ss []string) Value {
	if ss == nil {
		return Slice{nil: true}
	}
	a := make([]Value, len(ss))
	for i, s := range ss {
		a[i] = s
	}
	return Slice{a: a}
}

func allConcStr(args []Value) ([]string, bool) {
	out := make([]string, len(args))
	for i, a := range args {
		s, ok := normStr(a).(string)
		if !ok {
			return nil, false
		}
		out[i] = s
	}
	return out, true
}

func anyTerm(args ...Value) bool {
	for _, a := range args {
		if _, ok := a.(*Term); ok {
			return true
		}
	}
	return false
}

func registerStringIntrinsics(reg func(string, intrinsicFn)) {
	// (string,string)->bool
	bin := func(name string, nat func(a, b string) bool, smt string, swap bool) {
		reg("strings."+name, func(w *World, th *Thread, fn *ssa.Function, args []Value) Value {
			if ss, ok := allConcStr(args); ok {
				return nat(ss[0], ss[1])
			}
			if smt == "" {
				return notHandled
			}
			if !anyTerm(args...) {
				// BStr only: byte-wise through the real code
				return notHandled
			}
			a, b := w.strTerm(args[0]), w.strTerm(args[1])
			if swap {
				a, b = b, a
			}
			return w.tf.def(sortBool, "("+smt+" "+a.S+" "+b.S+")")
		})
	}
	bin("HasPrefix", strings.HasPrefix, "str.prefixof", true)
	bin("HasSuffix", strings.HasSuffix, "str.suffixof", true)
	bin("Contains", strings.Contains, "str.contains", false)
	bin("EqualFold", strings.EqualFold, "", false)
	bin("ContainsAny", strings.ContainsAny, "", false)

	reg("strings.TrimPrefix", func(w *World, th *Thread, fn *ssa.Function, args []Value) Value {
		if ss, ok := allConcStr(args); ok {
			return strings.TrimPrefix(ss[0], ss[1])
		}
		if !anyTerm(args...) {
			return notHandled
		}
		s, p := w.strTerm(args[0]), w.strTerm(args[1])
		return w.tf.def(sortString, fmt.Sprintf("(ite (str.prefixof %s %s) (str.substr %s (str.len %s) (- (str.len %s) (str.len %s))) %s)", p.S, s.S, s.S, p.S, s.S, p.S, s.S))
	})
	reg("strings.TrimSuffix", func(w *World, th *Thread, fn *ssa.Function, args []Value) Value {
		if ss, ok := allConcStr(args); ok {
			return strings.TrimSuffix(ss[0], ss[1])
		}
		if !anyTerm(args...) {
			return notHandled
		}
		s, p := w.strTerm(args[0]), w.strTerm(args[1])
		return w.tf.def(sortString, fmt.Sprintf("(ite (str.suffixof %s %s) (str.substr %s 0 (- (str.len %s) (str.len %s))) %s)", p.S, s.S, s.S, s.S, p.S, s.S))
	})
	un := func(name string, nat func(string) string) {
		reg("strings."+name, func(w *World, th *Thread, fn *ssa.Function, args []Value) Value {
			if ss, ok := allConcStr(args); ok {
				return nat(ss[0])
			}
			if anyTerm(args...) {
				panic(w.unsupported("strings.%s on symbolic-length string", name))
			}
			return notHandled
		})
	}
	reg("strings.TrimSpace", func(w *World, th *Thread, fn *ssa.Function, args []Value) Value {
		if ss, ok := allConcStr(args); ok {
			return strings.TrimSpace(ss[0])
		}
		b, ok := toBStr(args[0])
		if !ok {
			panic(w.unsupported("strings.TrimSpace on symbolic-length string"))
		}
		// ASCII white space only; a byte >= 0x80 at either end would need UTF-8 decoding
		isSpace := func(c Value) bool {
			if w.branch(w.binop(token.GEQ, types.Typ[types.Uint8], c, int64(0x80))) {
				panic(w.unsupported("strings.TrimSpace: non-ASCII byte at the edge of a symbolic string"))
			}
			for _, sp := range []int64{' ', '\t', '\n', '\v', '\f', '\r'} {
				if w.branch(w.intEq(c, sp, 8)) {
					return true
				}
			}
			return false
		}
		lo, hi := 0, len(b)
		for lo < hi && isSpace(b[lo]) {
			lo++
		}
		for hi > lo && isSpace(b[hi-1]) {
			hi--
		}
		return normStr(BStr(b[lo:hi:hi]))
	})
	un("ToLower", strings.ToLower)
	un("ToUpper", strings.ToUpper)
	un("Title", strings.Title)
	reg("strings.Index", func(w *World, th *Thread, fn *ssa.Function, args []Value) Value {
		if ss, ok := allConcStr(args); ok {
			return int64(strings.Index(ss[0], ss[1]))
		}
		if !anyTerm(args...) {
			return notHandled
		}
		s, p := w.strTerm(args[0]), w.strTerm(args[1])
		return w.tf.def(sortBV(64), fmt.Sprintf("((_ int2bv 64) (str.indexof %s %s 0))", s.S, p.S))
	})
	reg("strings.LastIndex", func(w *World, th *Thread, fn *ssa.Function, args []Value) Value {
		if ss, ok := allConcStr(args); ok {
			return int64(strings.LastIndex(ss[0], ss[1]))
		}
		return notHandled
	})
	reg("strings.IndexByte", func(w *World, th *Thread, fn *ssa.Function, args []Value) Value {
		if s, ok := normStr(args[0]).(string); ok {
			if c, ok := args[1].(int64); ok {
				return int64(strings.IndexByte(s, byte(c)))
			}
		}
		if b, ok := toBStr(args[0]); ok {
			return w.bstrIndexByte(b, args[1])
		}
		panic(w.unsupported("strings.IndexByte on symbolic-length string"))
	})
	reg("strings.Count", func(w *World, th *Thread, fn *ssa.Function, args []Value) Value {
		if ss, ok := allConcStr(args); ok {
			return int64(strings.Count(ss[0], ss[1]))
		}
		return notHandled
	})
	reg("strings.Compare", func(w *World, th *Thread, fn *ssa.Function, args []Value) Value {
		if ss, ok := allConcStr(args); ok {
			return int64(strings.Compare(ss[0], ss[1]))
		}
		return notHandled
	})
	reg("strings.Repeat", func(w *World, th *Thread, fn *ssa.Function, args []Value) Value {
		if s, ok := normStr(args[0]).(string); ok {
			if c, ok := args[1].(int64); ok {
				if c < 0 {
					panic(goPanic{"strings: negative Repeat count"})
				}
				return strings.Repeat(s, int(c))
			}
		}
		return notHandled
	})
	reg("strings.Split", func(w *World, th *Thread, fn *ssa.Function, args []Value) Value {
		if ss, ok := allConcStr(args); ok {
			return mkStrSlice(strings.Split(ss[0], ss[1]))
		}
		if anyTerm(args...) {
			panic(w.unsupported("strings.Split on symbolic-length string"))
		}
		sep, ok := normStr(args[1]).(string)
		b, ok2 := toBStr(args[0])
		if ok && ok2 && len(sep) == 1 {
			return w.bstrSplit(b, sep[0], -1)
		}
		return notHandled
	})
	reg("strings.SplitN", func(w *World, th *Thread, fn *ssa.Function, args []Value) Value {
		if ss, ok := allConcStr(args[:2]); ok {
			if n, ok := args[2].(int64); ok {
				return mkStrSlice(strings.SplitN(ss[0], ss[1], int(n)))
			}
		}
		if anyTerm(args...) {
			panic(w.unsupported("strings.SplitN on symbolic-length string"))
		}
		sep, ok := normStr(args[1]).(string)
		b, ok2 := toBStr(args[0])
		n, ok3 := args[2].(int64)
		if ok && ok2 && ok3 && len(sep) == 1 {
			return w.bstrSplit(b, sep[0], int(n))
		}
		return notHandled
	})
	reg("strings.Fields", func(w *World, th *Thread, fn *ssa.Function, args []Value) Value {
		if ss, ok := allConcStr(args); ok {
			return mkStrSlice(strings.Fields(ss[0]))
		}
		return notHandled
	})
	reg("strings.Join", func(w *World, th *Thread, fn *ssa.Function, args []Value) Value {
		sl := args[0].(Slice)
		var r Value = ""
		for i, e := range sl.a {
			if i > 0 {
				r = w.stringBinop(token.ADD, r, args[1])
			}
			r = w.stringBinop(token.ADD, r, e)
		}
		return normStr(r)
	})
	reg("strings.Replace", func(w *World, th *Thread, fn *ssa.Function, args []Value) Value {
		if ss, ok := allConcStr(args[:3]); ok {
			if n, ok := args[3].(int64); ok {
				return strings.Replace(ss[0], ss[1], ss[2], int(n))
			}
		}
		return notHandled
	})
	reg("strings.ReplaceAll", func(w *World, th *Thread, fn *ssa.Function, args []Value) Value {
		if ss, ok := allConcStr(args); ok {
			return strings.ReplaceAll(ss[0], ss[1], ss[2])
		}
		if !anyTerm(args...) {
			return notHandled
		}
		a, b, c := w.strTerm(args[0]), w.strTerm(args[1]), w.strTerm(args[2])
		return w.tf.def(sortString, fmt.Sprintf("(str.replace_all %s %s %s)", a.S, b.S, c.S))
	})
	for _, n := range []string{"Trim", "TrimLeft", "TrimRight"} {
		n := n
		reg("strings."+n, func(w *World, th *Thread, fn *ssa.Function, args []Value) Value {
			if ss, ok := allConcStr(args); ok {
				switch n {
				case "Trim":
					return strings.Trim(ss[0], ss[1])
				case "TrimLeft":
					return strings.TrimLeft(ss[0], ss[1])
				default:
					return strings.TrimRight(ss[0], ss[1])
				}
			}
			return notHandled
		})
	}
	reg("strings.Cut", func(w *World, th *Thread, fn *ssa.Function, args []Value) Value {
		if ss, ok := allConcStr(args); ok {
			a, b, f := strings.Cut(ss[0], ss[1])
			return Tuple{a, b, f}
		}
		return notHandled
	})

	// strings.Builder: accumulated value kept in a side table (the real one uses unsafe)
	bkey := func(p Ptr) string { return fmt.Sprintf("sb:%p", p) }
	sbGet := func(w *World, p Ptr) Value {
		if v, ok := w.userData[bkey(p)]; ok {
			return v
		}
		return ""
	}
	reg("(*strings.Builder).WriteString", func(w *World, th *Thread, fn *ssa.Function, args []Value) Value {
		p := args[0].(Ptr)
		w.userData[bkey(p)] = w.stringBinop(token.ADD, sbGet(w, p), args[1])
		return Tuple{w.strLen(args[1]), Iface{}}
	})
	reg("(*strings.Builder).WriteByte", func(w *World, th *Thread, fn *ssa.Function, args []Value) Value {
		p := args[0].(Ptr)
		w.userData[bkey(p)] = w.stringBinop(token.ADD, sbGet(w, p), normStr(BStr{args[1]}))
		return Iface{}
	})
	reg("(*strings.Builder).WriteRune", func(w *World, th *Thread, fn *ssa.Function, args []Value) Value {
		p := args[0].(Ptr)
		c, ok := args[1].(int64)
		if !ok {
			panic(w.unsupported("Builder.WriteRune(symbolic)"))
		}
		s := string(rune(c))
		w.userData[bkey(p)] = w.stringBinop(token.ADD, sbGet(w, p), s)
		return Tuple{int64(len(s)), Iface{}}
	})
	reg("(*strings.Builder).Write", func(w *World, th *Thread, fn *ssa.Function, args []Value) Value {
		p := args[0].(Ptr)
		sl := args[1].(Slice)
		b := make(BStr, len(sl.a))
		copy(b, sl.a)
		w.userData[bkey(p)] = w.stringBinop(token.ADD, sbGet(w, p), normStr(b))
		return Tuple{int64(len(sl.a)), Iface{}}
	})
	reg("(*strings.Builder).String", func(w *World, th *Thread, fn *ssa.Function, args []Value) Value {
		return normStr(sbGet(w, args[0].(Ptr)))
	})
	reg("(*strings.Builder).Len", func(w *World, th *Thread, fn *ssa.Function, args []Value) Value {
		return w.strLen(sbGet(w, args[0].(Ptr)))
	})
	reg("(*strings.Builder).Reset", func(w *World, th *Thread, fn *ssa.Function, args []Value) Value {
		delete(w.userData, bkey(args[0].(Ptr)))
		return nil
	})
	reg("(*strings.Builder).Grow", func(w *World, th *Thread, fn *ssa.Function, args []Value) Value { return nil })

	ident := func(w *World, th *Thread, fn *ssa.Function, args []Value) Value { return args[0] }
	reg("internal/stringslite.Clone", ident)
	reg("strings.Clone", ident)
	// low-level helpers implemented in assembly
	reg("internal/bytealg.IndexByteString", func(w *World, th *Thread, fn *ssa.Function, args []Value) Value {
		b, ok := toBStr(args[0])
		if !ok {
			panic(w.unsupported("IndexByteString on symbolic-length string"))
		}
		return w.bstrIndexByte(b, args[1])
	})
	reg("internal/bytealg.IndexByte", func(w *World, th *Thread, fn *ssa.Function, args []Value) Value {
		sl := args[0].(Slice)
		return w.bstrIndexByte(BStr(sl.a), args[1])
	})
	reg("internal/bytealg.CountString", func(w *World, th *Thread, fn *ssa.Function, args []Value) Value {
		b, ok := toBStr(args[0])
		if !ok {
			panic(w.unsupported("CountString on symbolic-length string"))
		}
		n := int64(0)
		for _, c := range b {
			if w.branch(w.intEq(c, args[1], 8)) {
				n++
			}
		}
		return n
	})
	reg("internal/bytealg.IndexString", func(w *World, th *Thread, fn *ssa.Function, args []Value) Value {
		a, ok1 := toBStr(args[0])
		b, ok2 := toBStr(args[1])
		if !ok1 || !ok2 {
			panic(w.unsupported("IndexString on symbolic-length string"))
		}
		for i := 0; i+len(b) <= len(a); i++ {
			if w.branch(w.strEq(BStr(a[i:i+len(b)]), b)) {
				return int64(i)
			}
		}
		return int64(-1)
	})
	reg("internal/stringslite.Index", intrinsics["internal/bytealg.IndexString"])
	reg("internal/stringslite.IndexByte", intrinsics["internal/bytealg.IndexByteString"])

	// strconv parsing: native on concrete, byte-wise SSA on BStr, str.to_int on terms
	reg("strconv.Atoi", func(w *World, th *Thread, fn *ssa.Function, args []Value) Value {
		if s, ok := normStr(args[0]).(string); ok {
			n, err := strconv.Atoi(s)
			if err != nil {
				return Tuple{int64(n), w.eng.makeError(w, err.Error(), nil)}
			}
			return Tuple{int64(n), Iface{}}
		}
		if _, ok := args[0].(BStr); ok {
			return notHandled
		}
		panic(w.unsupported("strconv.Atoi on symbolic-length string"))
	})
	reg("strconv.ParseUint", func(w *World, th *Thread, fn *ssa.Function, args []Value) Value {
		if s, ok := normStr(args[0]).(string); ok {
			b, ok1 := args[1].(int64)
			bs, ok2 := args[2].(int64)
			if ok1 && ok2 {
				n, err := strconv.ParseUint(s, int(b), int(bs))
				if err != nil {
					return Tuple{int64(n), w.eng.makeError(w, err.Error(), nil)}
				}
				return Tuple{int64(n), Iface{}}
			}
		}
		if t, ok := args[0].(*Term); ok {
			return w.parseUintTerm(t, args[1], args[2])
		}
		return notHandled
	})
	reg("strconv.ParseInt", func(w *World, th *Thread, fn *ssa.Function, args []Value) Value {
		if t, ok := args[0].(*Term); ok {
			if org, ok := w.fmtOriginS[t.S]; ok {
				var v Value = org
				if org.Sort.W < 64 {
					v = w.convInt(org, intInfo{org.Sort.W, true}, intInfo{64, true})
				}
				return Tuple{v, Iface{}}
			}
			if org, ok := w.fmtOrigin[t.S]; ok && org.Sort.W < 64 {
				return Tuple{w.convInt(org, intInfo{org.Sort.W, false}, intInfo{64, true}), Iface{}}
			}
			panic(w.unsupported("strconv.ParseInt on a symbolic string of unknown origin"))
		}
		if s, ok := normStr(args[0]).(string); ok {
			b, ok1 := args[1].(int64)
			bs, ok2 := args[2].(int64)
			if ok1 && ok2 {
				n, err := strconv.ParseInt(s, int(b), int(bs))
				if err != nil {
					return Tuple{int64(n), w.eng.makeError(w, err.Error(), nil)}
				}
				return Tuple{int64(n), Iface{}}
			}
		}
		return notHandled
	})
	reg("strconv.ParseBool", func(w *World, th *Thread, fn *ssa.Function, args []Value) Value {
		if s, ok := normStr(args[0]).(string); ok {
			b, err := strconv.ParseBool(s)
			if err != nil {
				return Tuple{false, w.eng.makeError(w, err.Error(), nil)}
			}
			return Tuple{b, Iface{}}
		}
		return notHandled
	})
	reg("strconv.ParseFloat", func(w *World, th *Thread, fn *ssa.Function, args []Value) Value {
		if s, ok := normStr(args[0]).(string); ok {
			f, err := strconv.ParseFloat(s, 64)
			if err != nil {
				return Tuple{f, w.eng.makeError(w, err.Error(), nil)}
			}
			return Tuple{f, Iface{}}
		}
		panic(w.unsupported("ParseFloat on symbolic string"))
	})
}

// parseUintTerm models strconv.ParseUint(s, 10, bitSize) on a String term: the string must be a
// non-empty digit string without sign whose value fits bitSize.
func (w *World) parseUintTerm(t *Term, base, bits Value) Value {
	b, ok1 := base.(int64)
	bs, ok2 := bits.(int64)
	if !ok1 || !ok2 || (b != 10 && b != 0) {
		panic(w.unsupported("ParseUint(term) base/bitsize"))
	}
	if bs == 0 {
		bs = 64
	}
	if org, ok := w.fmtOrigin[t.S]; ok {
		// the text was produced by FormatUint(org): the parse gives org back when it fits
		var v Value = org
		if org.Sort.W < 64 {
			v = w.convInt(org, intInfo{org.Sort.W, false}, intInfo{64, false})
		}
		if bs >= 64 || bs == 0 {
			return Tuple{v, Iface{}}
		}
		maxv := int64(uint64(1)<<uint(bs) - 1)
		if w.branch(w.binop(token.LEQ, types.Typ[types.Uint64], v, maxv)) {
			return Tuple{v, Iface{}}
		}
		return Tuple{maxv, w.eng.makeError(w, "strconv.ParseUint: value out of range", nil)}
	}
	// str.to_int returns -1 unless s consists only of digits (and is non-empty)
	n := "(str.to_int " + t.S + ")"
	var max string
	switch bs {
	case 32:
		max = "4294967295"
	case 64:
		max = "18446744073709551615"
	case 16:
		max = "65535"
	case 8:
		max = "255"
	default:
		panic(w.unsupported("ParseUint bitsize %d", bs))
	}
	okc := w.tf.def(sortBool, fmt.Sprintf("(and (>= %s 0) (<= %s %s))", n, n, max))
	if w.branch(okc) {
		v := w.tf.def(sortBV(64), fmt.Sprintf("((_ int2bv 64) %s)", n))
		return Tuple{v, Iface{}}
	}
	// error: syntax or range; value on range error is max — distinguish
	rng := w.tf.def(sortBool, fmt.Sprintf("(> %s %s)", n, max))
	if w.branch(rng) {
		mv, _ := strconv.ParseUint(max, 10, 64)
		return Tuple{int64(mv), w.eng.makeError(w, "strconv.ParseUint: value out of range", nil)}
	}
	return Tuple{int64(0), w.eng.makeError(w, "strconv.ParseUint: invalid syntax", nil)}
}

func (w *World) bstrIndexByte(b BStr, c Value) Value {
	for i, x := range b {
		if w.branch(w.intEq(x, c, 8)) {
			return int64(i)
		}
	}
	return int64(-1)
}

// bstrSplit splits on a single concrete separator byte, forking on each symbolic byte.
func (w *World) bstrSplit(b BStr, sep byte, n int) Value {
	var parts []Value
	start := 0
	for i := 0; i < len(b); i++ {
		if n > 0 && len(parts) == n-1 {
			break
		}
		if w.branch(w.intEq(b[i], int64(sep), 8)) {
			parts = append(parts, normStr(BStr(b[start:i:i])))
			start = i + 1
		}
	}
	parts = append(parts, normStr(BStr(b[start:len(b):len(b)])))
	if n == 0 {
		return Slice{nil: true}
	}
	return Slice{a: parts}
}
