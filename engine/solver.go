package main

import (
	"bufio"
	"fmt"
	"io"
	"os"
	"os/exec"
	"strings"
	"time"
)

// Solver wraps one persistent `z3 -in` process.
type Solver struct {
	cmd       *exec.Cmd
	in        io.WriteCloser
	bw        *bufio.Writer
	lines     chan readResult
	dead      bool
	out       *bufio.Reader
	bin       string
	timeoutMs int
	Queries   int
	Sat       int
	Unsat     int
	Unknown   int
	Errors    int
	Restarts  int
	Time      time.Duration
	log       io.Writer
	depth     int
}

func NewSolver(bin string, timeoutMs int) (*Solver, error) {
	s := &Solver{bin: bin, timeoutMs: timeoutMs}
	if err := s.start(); err != nil {
		return nil, err
	}
	return s, nil
}

func (s *Solver) start() error {
	args := []string{"-in"}
	if strings.Contains(s.bin, "cvc5") {
		args = []string{"--incremental", "--lang=smt2", "--produce-models", "--strings-exp", fmt.Sprintf("--tlimit-per=%d", s.timeoutMs)}
	}
	s.cmd = exec.Command(s.bin, args...)
	in, err := s.cmd.StdinPipe()
	if err != nil {
		return err
	}
	out, err := s.cmd.StdoutPipe()
	if err != nil {
		return err
	}
	s.cmd.Stderr = os.Stderr
	if err := s.cmd.Start(); err != nil {
		return err
	}
	s.in = in
	s.bw = bufio.NewWriterSize(in, 1<<16)
	s.out = bufio.NewReaderSize(out, 1<<16)
	s.depth = 0
	s.dead = false
	lines := make(chan readResult, 64)
	s.lines = lines
	rd := s.out
	go func() {
		for {
			l, err := rd.ReadString('\n')
			lines <- readResult{l, err}
			if err != nil {
				close(lines)
				return
			}
		}
	}()
	if strings.Contains(s.bin, "cvc5") {
		s.Send("(set-logic ALL)")
	} else {
		s.Send(fmt.Sprintf("(set-option :timeout %d)", s.timeoutMs))
		s.Send("(set-option :model.completion true)")
	}
	return nil
}

func (s *Solver) Close() {
	if s.cmd != nil {
		s.bw.Flush()
		s.in.Close()
		done := make(chan struct{})
		go func() { s.cmd.Wait(); close(done) }()
		select {
		case <-done:
		case <-time.After(2 * time.Second):
			s.cmd.Process.Kill()
		}
		s.cmd = nil
	}
}

func (s *Solver) Send(line string) {
	if s.log != nil {
		fmt.Fprintln(s.log, line)
	}
	s.bw.WriteString(line)
	s.bw.WriteByte('\n')
}

func (s *Solver) Push() { s.Send("(push)"); s.depth++ }
func (s *Solver) Pop()  { s.Send("(pop)"); s.depth-- }

// restart kills a wedged solver and starts a fresh one (the caller must re-send its context).
func (s *Solver) restart() {
	if s.cmd != nil {
		s.cmd.Process.Kill()
		s.cmd.Wait()
	}
	s.start()
	s.Restarts++
}

type readResult struct {
	line string
	err  error
}

// readLine reads one response line with a hard wall timeout (solver timeout + slack).
func (s *Solver) readLine() (string, error) {
	if s.dead {
		return "", fmt.Errorf("solver dead")
	}
	s.bw.Flush()
	select {
	case r, ok := <-s.lines:
		if !ok {
			s.dead = true
			return "", fmt.Errorf("solver exited")
		}
		if r.err != nil {
			s.dead = true
		}
		return strings.TrimSpace(r.line), r.err
	default:
	}
	tm := time.NewTimer(time.Duration(s.timeoutMs)*time.Millisecond*2 + 10*time.Second)
	defer tm.Stop()
	select {
	case r, ok := <-s.lines:
		if !ok {
			s.dead = true
			return "", fmt.Errorf("solver exited")
		}
		if r.err != nil {
			s.dead = true
		}
		return strings.TrimSpace(r.line), r.err
	case <-tm.C:
		s.dead = true
		return "", fmt.Errorf("solver wall timeout")
	}
}

// Check runs (check-sat) with the extra assertion `extra` ("" for none) in a temporary scope.
// Returns "sat", "unsat", "unknown" (also for errors/timeouts).
func (s *Solver) Check(extra string, keep bool) string {
	if s.dead {
		return "dead"
	}
	t0 := time.Now()
	s.Queries++
	if !keep {
		s.Send("(push)")
	}
	if extra != "" {
		s.Send("(assert " + extra + ")")
	}
	s.Send("(check-sat)")
	res := "unknown"
	for {
		l, err := s.readLine()
		if err != nil {
			s.Errors++
			s.Time += time.Since(t0)
			s.Unknown++
			return "dead"
		}
		if l == "" {
			continue
		}
		if l == "sat" || l == "unsat" || l == "unknown" || l == "timeout" {
			res = l
			if l == "timeout" {
				res = "unknown"
			}
			break
		}
		if strings.HasPrefix(l, "(error") {
			// any error (rejected definition, cancelled push, ...) leaves the session in an unknown
			// scope: nothing it says afterwards is believed; the caller restarts the solver
			s.Errors++
			if s.Errors < 5 {
				fmt.Fprintln(os.Stderr, "SOLVER ERROR:", l)
			}
			s.dead = true
			s.Time += time.Since(t0)
			s.Unknown++
			return "dead"
		}
	}
	if !keep {
		s.Send("(pop)")
	}
	s.Time += time.Since(t0)
	switch res {
	case "sat":
		s.Sat++
	case "unsat":
		s.Unsat++
	default:
		s.Unknown++
	}
	return res
}

// GetValues fetches model values of the listed terms (after a sat Check with keep=true).
func (s *Solver) GetValues(names []string) (map[string]string, error) {
	res := map[string]string{}
	for _, n := range names {
		s.Send("(get-value (" + n + "))")
		// response: ((name value)) possibly multi-line
		var buf strings.Builder
		depth := 0
		started := false
		for {
			l, err := s.readLine()
			if err != nil {
				return res, err
			}
			if strings.HasPrefix(l, "(error") {
				return res, fmt.Errorf("get-value: %s", l)
			}
			buf.WriteString(l)
			buf.WriteByte(' ')
			inStr := false
			for i := 0; i < len(l); i++ {
				c := l[i]
				if c == '"' {
					inStr = !inStr
				}
				if inStr {
					continue
				}
				if c == '(' {
					depth++
					started = true
				} else if c == ')' {
					depth--
				}
			}
			if started && depth == 0 {
				break
			}
		}
		txt := strings.TrimSpace(buf.String())
		// strip "((" name " " ... "))"
		txt = strings.TrimPrefix(txt, "((")
		txt = strings.TrimSuffix(txt, "))")
		txt = strings.TrimSpace(txt)
		// name may be |quoted|
		var val string
		if strings.HasPrefix(txt, "|") {
			j := strings.Index(txt[1:], "|")
			val = strings.TrimSpace(txt[j+2:])
		} else {
			j := strings.IndexAny(txt, " \t")
			if j < 0 {
				val = ""
			} else {
				val = strings.TrimSpace(txt[j+1:])
			}
		}
		res[n] = val
	}
	return res, nil
}
