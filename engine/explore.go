package main

import (
	"fmt"
	"os"
	"os/exec"
	"runtime/debug"
	"sort"
	"strings"
	"sync"
	"time"

	"golang.org/x/tools/go/ssa"
)

type PathSample struct {
	Decisions string         `json:"decisions"`
	ModelOK   bool           `json:"model_ok"` // the solver gave a model of the path condition (inputs are meaningful)
	Inputs    map[string]any `json:"inputs,omitempty"`
	Reached   []string       `json:"reached,omitempty"`
	End       string         `json:"end"`
	Trace     []string       `json:"trace,omitempty"`
}

// Result aggregates the exploration of one harness entry.
type Result struct {
	Entry        string
	Paths        int
	EndKinds     map[string]int
	TreeNodes    int // distinct decision-tree nodes (states)
	Decisions    int // edges taken
	Steps        int
	Queries      int
	Sat          int
	Unsat        int
	Unknown      int
	SolverErrors int
	SolverTime   time.Duration
	Wall         time.Duration
	Violations   []*Violation
	Reached      map[string]int
	Funcs        map[string]string // function -> position
	Stubs        map[string]bool
	Inconclusive []string
	Samples      []PathSample
	Conformed    int // completed sample paths whose native re-run agreed with the interpreter
	MaxThreads   int
	SchedPoints  int
	Complete     bool // worklist exhausted within budgets
}

type pathResult struct {
	end        string
	msg        string
	forks      [][]Decision
	violations []*Violation
	reached    map[string]bool
	funcs      map[*ssa.Function]bool
	stubs      map[string]bool
	newNodes   int
	steps      int
	unknowns   int
	inconc     string
	sample     *PathSample
	threads    int
	schedPts   int
}

func (e *Engine) runPath(sol *Solver, prefix []Decision, wantSample bool) (res pathResult) {
	w := &World{eng: e, sol: sol, prefix: prefix,
		globals: map[*ssa.Global]Ptr{}, initDone: map[*ssa.Package]int{}, syncObjs: map[Ptr]*syncObj{}, onceMap: map[Ptr]*onceObj{},
		reached: map[string]bool{}, funcsSeen: map[*ssa.Function]bool{}, stubsSeen: map[string]bool{}, userData: map[string]any{}, inSummary: map[*ssa.Function]bool{}}
	w.tf.emit = sol.Send
	w.concrete = e.concreteInputs
	sol.Push()
	defer func() {
		r := recover()
		res.end = "done"
		switch p := r.(type) {
		case nil:
		case pathEnd:
			res.end, res.msg = p.kind, p.msg
		case unsupportedErr:
			res.end, res.msg = "unsupported", p.msg
		case goPanic:
			res.end, res.msg = "unsupported", "engine: stray runtime panic: "+p.msg
		default:
			res.end, res.msg = "unsupported", fmt.Sprintf("engine panic: %v\n%s", r, firstLines(string(debug.Stack()), 30))
		}
		if res.end == "done" && w.inconc != "" {
			res.end, res.msg = "unsupported", w.inconc
		}
		if wantSample && (res.end == "done" || res.end == "violation") {
			s := &PathSample{End: res.end, Decisions: decString(w.trace)}
			if in, ok := w.model(""); ok {
				s.Inputs = in
				s.ModelOK = true
			}
			for l := range w.reached {
				s.Reached = append(s.Reached, l)
			}
			sort.Strings(s.Reached)
			if len(w.log) > 0 {
				s.Trace = w.log
				if len(s.Trace) > 40 {
					s.Trace = s.Trace[:40]
				}
			}
			res.sample = s
		}
		if !sol.dead {
			sol.Pop()
		}
		res.forks = w.forks
		res.violations = w.violations
		res.reached = w.reached
		res.funcs = w.funcsSeen
		res.stubs = w.stubsSeen
		res.newNodes = len(w.trace) - len(prefix) + 1
		if res.newNodes < 1 {
			res.newNodes = 1
		}
		res.steps = w.steps
		res.unknowns = w.unknowns
		res.inconc = w.inconc
		res.threads = len(w.threads)
		for _, d := range w.trace {
			if d.K == DSched {
				res.schedPts++
			}
		}
		if sol.cmd == nil || sol.dead {
			sol.restart()
		}
	}()
	main := w.newThread(nil, "main")
	w.cur = main
	w.invokeValue(main, e.entry, nil, func(Value) {}, nil)
	w.schedule(main)
	if len(w.prefix) > w.pos {
		panic(unsupportedErr{fmt.Sprintf("engine: replay desync: path ended after %d of %d prefix decisions", w.pos, len(w.prefix))})
	}
	return
}

func firstLines(s string, n int) string {
	lines := strings.Split(s, "\n")
	if len(lines) > n {
		lines = lines[:n]
	}
	return strings.Join(lines, "\n")
}

func decString(ds []Decision) string {
	var sb strings.Builder
	for _, d := range ds {
		if d.N == 0 {
			continue // forced
		}
		fmt.Fprintf(&sb, "%c%d", d.K, d.V)
	}
	return sb.String()
}

// explore runs the depth-first exploration with cfg.Workers solver processes.
func (e *Engine) explore(deadline time.Time) *Result {
	t0 := time.Now()
	res := &Result{Entry: e.cfg.Entry, EndKinds: map[string]int{}, Reached: map[string]int{}, Funcs: map[string]string{}, Stubs: map[string]bool{}}
	var mu sync.Mutex
	cond := sync.NewCond(&mu)
	work := [][]Decision{nil}
	active := 0
	stop := false
	inconcSeen := map[string]bool{}
	nextSample := 8
	workers := e.cfg.Workers
	if workers < 1 {
		workers = 1
	}
	var wg sync.WaitGroup
	for i := 0; i < workers; i++ {
		wg.Add(1)
		go func(id int) {
			defer wg.Done()
			sol, err := NewSolver(solverBin(), e.cfg.SolverMs)
			if err != nil {
				mu.Lock()
				res.Inconclusive = append(res.Inconclusive, "cannot start solver: "+err.Error())
				stop = true
				cond.Broadcast()
				mu.Unlock()
				return
			}
			if lp := os.Getenv("GOSYM_SMTLOG"); lp != "" {
				if f, err := os.Create(fmt.Sprintf("%s.%d", lp, id)); err == nil {
					sol.log = f
					defer f.Close()
				}
			}
			defer func() {
				mu.Lock()
				res.Queries += sol.Queries
				res.Sat += sol.Sat
				res.Unsat += sol.Unsat
				res.Unknown += sol.Unknown
				res.SolverErrors += sol.Errors
				res.SolverTime += sol.Time
				mu.Unlock()
				sol.Close()
			}()
			for {
				mu.Lock()
				for len(work) == 0 && active > 0 && !stop {
					cond.Wait()
				}
				if stop || (len(work) == 0 && active == 0) {
					cond.Broadcast()
					mu.Unlock()
					return
				}
				prefix := work[len(work)-1]
				work = work[:len(work)-1]
				active++
				// samples: the first few paths, then geometrically spaced ones (so that they are spread over the tree)
				wantSample := len(res.Samples) < 6 || (res.Paths >= nextSample && len(res.Samples) < 6+e.cfg.Conform)
				if wantSample && len(res.Samples) >= 6 {
					nextSample = res.Paths + 1 + res.Paths/4
				}
				mu.Unlock()

				pr := e.runPath(sol, prefix, wantSample)
				// a solver process that died (killed, out of time under load) says nothing about the path: run the
				// path again on a fresh process before giving up on it
				for retry := 0; retry < 2 && pr.end == "unsupported" && strings.HasPrefix(pr.msg, "solver died"); retry++ {
					pr = e.runPath(sol, prefix, wantSample)
				}

				mu.Lock()
				active--
				res.Paths++
				res.EndKinds[pr.end]++
				res.TreeNodes += pr.newNodes
				res.Decisions += pr.newNodes - 1
				res.Steps += pr.steps
				res.SchedPoints += pr.schedPts
				if pr.threads > res.MaxThreads {
					res.MaxThreads = pr.threads
				}
				for l := range pr.reached {
					res.Reached[l]++
				}
				for f := range pr.funcs {
					if _, ok := res.Funcs[f.String()]; !ok {
						pos := ""
						if f.Pos().IsValid() {
							pos = e.shortPos(f.Pos())
						}
						res.Funcs[f.String()] = pos
					}
				}
				for s := range pr.stubs {
					res.Stubs[s] = true
				}
				if pr.sample != nil && len(res.Samples) < 6+e.cfg.Conform {
					res.Samples = append(res.Samples, *pr.sample)
				}
				for _, v := range pr.violations {
					dup := false
					for _, o := range res.Violations {
						if o.Label == v.Label && o.Kind == v.Kind {
							dup = true
						}
					}
					if !dup || len(res.Violations) < 4 {
						res.Violations = append(res.Violations, v)
					}
				}
				switch pr.end {
				case "unsupported", "budget", "unwind":
					key := pr.end + ": " + pr.msg
					if !inconcSeen[key] {
						inconcSeen[key] = true
						if len(res.Inconclusive) < 20 {
							res.Inconclusive = append(res.Inconclusive, key)
						}
					}
				}
				if pr.unknowns > 0 && pr.end == "done" {
					// unknown feasibility answers only widen the explored set; recorded for evidence
				}
				work = append(work, pr.forks...)
				if res.Paths >= e.cfg.MaxPaths || time.Now().After(deadline) {
					if len(work) > 0 || active > 0 {
						res.Inconclusive = append(res.Inconclusive, fmt.Sprintf("budget: exploration stopped after %d paths (%d prefixes pending)", res.Paths, len(work)))
					}
					stop = true
				}
				if len(res.Violations) >= 12 {
					stop = true
				}
				cond.Broadcast()
				mu.Unlock()
				if os.Getenv("GOSYM_PROGRESS") != "" && res.Paths%200 == 0 {
					fmt.Fprintf(os.Stderr, "  [%s] paths=%d pending=%d\n", e.cfg.Entry, res.Paths, len(work))
				}
			}
		}(i)
	}
	wg.Wait()
	res.Complete = len(work) == 0 && !stop
	res.Wall = time.Since(t0)
	return res
}

func solverBin() string {
	if b := os.Getenv("GOSYM_SOLVER"); b != "" {
		return b
	}
	if p, err := exec.LookPath("z3-new"); err == nil {
		return p
	}
	return "z3"
}
