package main

import (
	"go/types"
	"strings"

	"golang.org/x/tools/go/ssa"
)

// Function summaries: a pure callee with scalar arguments and results is executed on all of its
// syntactic paths inside the current path and its results are merged into one ite-term, instead of
// forking the caller's path at every branch of the callee. Which functions are summarised is
// stated per harness (option summarize=...): purity (no writes to pre-existing memory, no
// scheduling points) is part of the harness's claim; a callee path that panics feasibly, or more
// than maxSubPaths paths, makes the call fall back to ordinary forking execution.

const maxSubPaths = 600

type subCtx struct {
	prefix []bool
	pos    int
	trace  []bool
	pc     []*Term
	forks  [][]bool
}

func (w *World) subBranch(t *Term) bool {
	sub := w.subs[len(w.subs)-1]
	var d bool
	if sub.pos < len(sub.prefix) {
		d = sub.prefix[sub.pos]
	} else {
		d = true
		alt := append(append([]bool{}, sub.trace...), false)
		sub.forks = append(sub.forks, alt)
	}
	sub.pos++
	sub.trace = append(sub.trace, d)
	if d {
		sub.pc = append(sub.pc, t)
	} else {
		sub.pc = append(sub.pc, w.not(t).(*Term))
	}
	return d
}

func andTerms(ts []*Term) string {
	switch len(ts) {
	case 0:
		return "true"
	case 1:
		return ts[0].S
	}
	parts := make([]string, len(ts))
	for i, t := range ts {
		parts[i] = t.S
	}
	return "(and " + strings.Join(parts, " ") + ")"
}

func scalarValue(v Value) bool {
	switch x := v.(type) {
	case bool, int64, float64, string, *Term, BStr:
		return true
	case Tuple:
		for _, e := range x {
			if !scalarValue(e) {
				return false
			}
		}
		return true
	}
	return false
}

type subOut struct {
	pc  []*Term
	val Value
}

// summarize returns (result, true) or (nil, false) when the call must be executed normally.
func (w *World) summarize(fn *ssa.Function, fv Value, args []Value) (Value, bool) {
	for _, a := range args {
		if !scalarValue(a) {
			return nil, false
		}
	}
	anySym := false
	for _, a := range args {
		if isSym(a) {
			anySym = true
		}
	}
	if !anySym {
		return nil, false
	}
	work := [][]bool{nil}
	var outs []subOut
	for len(work) > 0 {
		prefix := work[len(work)-1]
		work = work[:len(work)-1]
		sub := &subCtx{prefix: prefix}
		w.subs = append(w.subs, sub)
		val, panicked := func() (v Value, p bool) {
			defer func() {
				if r := recover(); r != nil {
					if _, ok := r.(goPanic); ok {
						p = true
						return
					}
					w.subs = w.subs[:len(w.subs)-1]
					panic(r)
				}
			}()
			return w.callValueSync(fv, args), false
		}()
		w.subs = w.subs[:len(w.subs)-1]
		work = append(work, sub.forks...)
		if panicked {
			// ignore when infeasible, otherwise give up summarising
			all := append(append([]*Term{}, w.outerSubPC()...), sub.pc...)
			if w.sol.Check(andTerms(all), false) == "unsat" {
				continue
			}
			return nil, false
		}
		if !scalarValue(val) && val != nil {
			return nil, false
		}
		outs = append(outs, subOut{sub.pc, val})
		if len(outs) > maxSubPaths {
			return nil, false
		}
	}
	if len(outs) == 0 {
		return nil, false
	}
	res := fn.Signature.Results()
	switch res.Len() {
	case 0:
		return nil, true
	case 1:
		return w.mergeOuts(outs, func(v Value) Value { return v }, res.At(0).Type()), true
	}
	t := make(Tuple, res.Len())
	for i := range t {
		i := i
		t[i] = w.mergeOuts(outs, func(v Value) Value { return v.(Tuple)[i] }, res.At(i).Type())
	}
	return t, true
}

func (w *World) outerSubPC() []*Term {
	var pc []*Term
	for _, s := range w.subs {
		pc = append(pc, s.pc...)
	}
	return pc
}

func (w *World) mergeOuts(outs []subOut, sel func(Value) Value, t types.Type) Value {
	// identical results need no ite
	first := sel(outs[0].val)
	same := true
	for _, o := range outs[1:] {
		v := sel(o.val)
		if !sameScalar(first, v) {
			same = false
			break
		}
	}
	if same {
		return first
	}
	acc := sel(outs[len(outs)-1].val)
	for i := len(outs) - 2; i >= 0; i-- {
		v := sel(outs[i].val)
		if sameScalar(v, acc) {
			continue
		}
		c := &Term{Sort: sortBool, S: andTerms(outs[i].pc)}
		if len(outs[i].pc) > 1 {
			c = w.tf.def(sortBool, c.S)
		}
		acc = w.ite(c, v, acc, t)
	}
	return acc
}

func sameScalar(a, b Value) bool {
	switch x := a.(type) {
	case bool:
		y, ok := b.(bool)
		return ok && x == y
	case int64:
		y, ok := b.(int64)
		return ok && x == y
	case float64:
		y, ok := b.(float64)
		return ok && x == y
	case string:
		y, ok := b.(string)
		return ok && x == y
	case *Term:
		y, ok := b.(*Term)
		return ok && x.S == y.S
	}
	return false
}
