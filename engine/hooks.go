package main

import (
	"bytes"
	"fmt"
	"go/ast"
	"go/format"
	"go/parser"
	"go/printer"
	"go/token"
	"os"
	"path/filepath"
	"strings"
)

// Source-level hooks (//verif:hook <dir> <Func | Type.Method>): the file of /repo (or of a module in the
// module cache) that declares the function is overlaid - for the interpreter and for the native replay
// alike - by a copy in which the function is renamed verifOrig_<name> and a forwarding function with the
// original name calls the package-level variable VerifHook_<name> when the harness has set it, the
// original otherwise. The copy is regenerated from the current working tree on every run; nothing is
// written to /repo.

type hookSpec struct {
	dir  string // directory of the package, relative to /repo, or absolute
	name string // Func or Type.Method
}

func exprString(fset *token.FileSet, e ast.Expr) string {
	var b bytes.Buffer
	printer.Fprint(&b, fset, e)
	return b.String()
}

// applyHooks returns virtual path -> new content for every file touched by the hook specs.
func applyHooks(specs []hookSpec) (map[string][]byte, error) {
	out := map[string][]byte{}
	byDir := map[string][]hookSpec{}
	for _, s := range specs {
		byDir[s.dir] = append(byDir[s.dir], s)
	}
	for dir, list := range byDir {
		abs := dir
		if !filepath.IsAbs(abs) {
			abs = filepath.Join(repoRoot, dir)
		}
		ents, err := os.ReadDir(abs)
		if err != nil {
			return nil, err
		}
		fset := token.NewFileSet()
		files := map[string]*ast.File{}
		for _, de := range ents {
			n := de.Name()
			if !strings.HasSuffix(n, ".go") || strings.HasSuffix(n, "_test.go") {
				continue
			}
			p := filepath.Join(abs, n)
			if cur, ok := out[p]; ok {
				f, err := parser.ParseFile(fset, p, cur, parser.ParseComments)
				if err != nil {
					return nil, err
				}
				files[p] = f
				continue
			}
			f, err := parser.ParseFile(fset, p, nil, parser.ParseComments)
			if err != nil {
				return nil, err
			}
			files[p] = f
		}
		appendix := map[string]*strings.Builder{}
		for _, s := range list {
			typ, fn := "", s.name
			if i := strings.Index(s.name, "."); i >= 0 {
				typ, fn = s.name[:i], s.name[i+1:]
			}
			found := false
			for p, f := range files {
				for _, d := range f.Decls {
					fd, ok := d.(*ast.FuncDecl)
					if !ok || fd.Name.Name != fn || fd.Body == nil {
						continue
					}
					recvType, recvName := "", ""
					if fd.Recv != nil && len(fd.Recv.List) == 1 {
						recvType = exprString(fset, fd.Recv.List[0].Type)
						if len(fd.Recv.List[0].Names) > 0 {
							recvName = fd.Recv.List[0].Names[0].Name
						}
					}
					base := strings.TrimPrefix(recvType, "*")
					if i := strings.Index(base, "["); i >= 0 {
						base = base[:i]
					}
					if typ != base {
						continue
					}
					found = true
					id := fn
					if typ != "" {
						id = typ + "_" + fn
					}
					// parameters
					var params, args, ptypes []string
					k := 0
					for _, fld := range fd.Type.Params.List {
						ts := exprString(fset, fld.Type)
						names := fld.Names
						if len(names) == 0 {
							names = []*ast.Ident{{Name: "_"}}
						}
						for range names {
							an := fmt.Sprintf("a%d", k)
							k++
							params = append(params, an+" "+ts)
							ptypes = append(ptypes, ts)
							if strings.HasPrefix(ts, "...") {
								args = append(args, an+"...")
							} else {
								args = append(args, an)
							}
						}
					}
					var results []string
					if fd.Type.Results != nil {
						for _, fld := range fd.Type.Results.List {
							ts := exprString(fset, fld.Type)
							n := len(fld.Names)
							if n == 0 {
								n = 1
							}
							for i := 0; i < n; i++ {
								results = append(results, ts)
							}
						}
					}
					res := ""
					if len(results) > 0 {
						res = " (" + strings.Join(results, ", ") + ")"
					}
					ret := ""
					if len(results) > 0 {
						ret = "return "
					}
					sb := appendix[p]
					if sb == nil {
						sb = &strings.Builder{}
						appendix[p] = sb
					}
					orig := "VerifOrig_" + id
					fd.Name.Name = orig
					if recvType != "" {
						if recvName == "" || recvName == "_" {
							recvName = "verifRecv"
						}
						hookParams := append([]string{recvType}, ptypes...)
						fmt.Fprintf(sb, "\n// VerifHook_%s replaces %s.%s when set (verification harness only).\nvar VerifHook_%s func(%s)%s\n", id, typ, fn, id, strings.Join(hookParams, ", "), res)
						fmt.Fprintf(sb, "\nfunc (%s %s) %s(%s)%s {\n\tif VerifHook_%s != nil {\n\t\t%sVerifHook_%s(%s)\n\t\treturn\n\t}\n\t%s%s.%s(%s)\n}\n",
							recvName, recvType, fn, strings.Join(params, ", "), res, id, ret, id, strings.Join(append([]string{recvName}, args...), ", "), ret, recvName, orig, strings.Join(args, ", "))
					} else {
						fmt.Fprintf(sb, "\n// VerifHook_%s replaces %s when set (verification harness only).\nvar VerifHook_%s func(%s)%s\n", id, fn, id, strings.Join(ptypes, ", "), res)
						fmt.Fprintf(sb, "\nfunc %s(%s)%s {\n\tif VerifHook_%s != nil {\n\t\t%sVerifHook_%s(%s)\n\t\treturn\n\t}\n\t%s%s(%s)\n}\n",
							fn, strings.Join(params, ", "), res, id, ret, id, strings.Join(args, ", "), ret, orig, strings.Join(args, ", "))
					}
				}
			}
			if !found {
				return nil, fmt.Errorf("hook: %s not found in %s", s.name, dir)
			}
		}
		for p, sb := range appendix {
			var b bytes.Buffer
			if err := printer.Fprint(&b, fset, files[p]); err != nil {
				return nil, err
			}
			b.WriteString(sb.String())
			src := strings.ReplaceAll(b.String(), "\t\treturn\n\t}\n\treturn ", "\t}\n\treturn ")
			fm, err := format.Source([]byte(src))
			if err != nil {
				return nil, fmt.Errorf("hook: generated source for %s does not format: %v", p, err)
			}
			out[p] = fm
		}
	}
	return out, nil
}
