package main

import (
	"fmt"
	"regexp"
	"regexp/syntax"
	"strings"

	"golang.org/x/tools/go/ssa"
)

// Go regular expressions on symbolic strings: the pattern (always concrete) is parsed with
// regexp/syntax and translated to an SMT-LIB RegLan; MatchString becomes (str.in_re s R).
// Supported: literals, character classes, ., concatenation, alternation, * + ? {n,m}, groups,
// anchors ^ $ at the ends of the pattern. Unanchored patterns are wrapped in (re.++ re.all R re.all).

func reChar(r rune) string {
	if r < 0x80 && r >= 0x20 && r != '"' && r != '\\' {
		return `"` + string(r) + `"`
	}
	if r == '"' {
		return `""""`
	}
	return fmt.Sprintf(`"\u{%x}"`, r)
}

func reToSMT(re *syntax.Regexp) (string, error) {
	switch re.Op {
	case syntax.OpEmptyMatch:
		return `(str.to_re "")`, nil
	case syntax.OpLiteral:
		var sb strings.Builder
		for _, r := range re.Rune {
			if re.Flags&syntax.FoldCase != 0 {
				return "", fmt.Errorf("case-folded literal")
			}
			sb.WriteString(strings.Trim(reChar(r), `"`))
		}
		lit := sb.String()
		if len(re.Rune) == 1 {
			return "(str.to_re " + reChar(re.Rune[0]) + ")", nil
		}
		// multi-char literal: build with escapes preserved
		parts := make([]string, len(re.Rune))
		for i, r := range re.Rune {
			parts[i] = "(str.to_re " + reChar(r) + ")"
		}
		_ = lit
		return "(re.++ " + strings.Join(parts, " ") + ")", nil
	case syntax.OpCharClass:
		var alts []string
		for i := 0; i+1 < len(re.Rune); i += 2 {
			lo, hi := re.Rune[i], re.Rune[i+1]
			if hi > 0xff {
				hi = 0xff // strings are byte strings in this model
			}
			if lo > hi {
				continue
			}
			if lo == hi {
				alts = append(alts, "(str.to_re "+reChar(lo)+")")
			} else {
				alts = append(alts, "(re.range "+reChar(lo)+" "+reChar(hi)+")")
			}
		}
		switch len(alts) {
		case 0:
			return "re.none", nil
		case 1:
			return alts[0], nil
		}
		return "(re.union " + strings.Join(alts, " ") + ")", nil
	case syntax.OpAnyCharNotNL:
		return `(re.diff re.allchar (str.to_re "\u{a}"))`, nil
	case syntax.OpAnyChar:
		return "re.allchar", nil
	case syntax.OpCapture:
		return reToSMT(re.Sub[0])
	case syntax.OpStar, syntax.OpPlus, syntax.OpQuest:
		s, err := reToSMT(re.Sub[0])
		if err != nil {
			return "", err
		}
		op := map[syntax.Op]string{syntax.OpStar: "re.*", syntax.OpPlus: "re.+", syntax.OpQuest: "re.opt"}[re.Op]
		return "(" + op + " " + s + ")", nil
	case syntax.OpRepeat:
		s, err := reToSMT(re.Sub[0])
		if err != nil {
			return "", err
		}
		if re.Max < 0 {
			return fmt.Sprintf("(re.++ ((_ re.loop %d %d) %s) (re.* %s))", re.Min, re.Min, s, s), nil
		}
		return fmt.Sprintf("((_ re.loop %d %d) %s)", re.Min, re.Max, s), nil
	case syntax.OpConcat, syntax.OpAlternate:
		var parts []string
		for _, sub := range re.Sub {
			if sub.Op == syntax.OpBeginText || sub.Op == syntax.OpEndText || sub.Op == syntax.OpBeginLine || sub.Op == syntax.OpEndLine {
				return "", fmt.Errorf("anchor inside pattern")
			}
			s, err := reToSMT(sub)
			if err != nil {
				return "", err
			}
			parts = append(parts, s)
		}
		if len(parts) == 1 {
			return parts[0], nil
		}
		op := "re.++"
		if re.Op == syntax.OpAlternate {
			op = "re.union"
		}
		return "(" + op + " " + strings.Join(parts, " ") + ")", nil
	}
	return "", fmt.Errorf("unsupported regexp construct %v", re.Op)
}

// patternToRegLan handles the outer anchors.
func patternToRegLan(pattern string) (string, error) {
	re, err := syntax.Parse(pattern, syntax.Perl)
	if err != nil {
		return "", err
	}
	re = re.Simplify()
	anchoredL, anchoredR := false, false
	if re.Op == syntax.OpConcat {
		subs := re.Sub
		if len(subs) > 0 && subs[0].Op == syntax.OpBeginText {
			anchoredL = true
			subs = subs[1:]
		}
		if len(subs) > 0 && subs[len(subs)-1].Op == syntax.OpEndText {
			anchoredR = true
			subs = subs[:len(subs)-1]
		}
		re = &syntax.Regexp{Op: syntax.OpConcat, Sub: subs}
		if len(subs) == 0 {
			re = &syntax.Regexp{Op: syntax.OpEmptyMatch}
		}
	} else if re.Op == syntax.OpBeginText {
		anchoredL = true
		re = &syntax.Regexp{Op: syntax.OpEmptyMatch}
	} else if re.Op == syntax.OpEndText {
		anchoredR = true
		re = &syntax.Regexp{Op: syntax.OpEmptyMatch}
	}
	s, err := reToSMT(re)
	if err != nil {
		return "", err
	}
	parts := []string{}
	if !anchoredL {
		parts = append(parts, "re.all")
	}
	parts = append(parts, s)
	if !anchoredR {
		parts = append(parts, "re.all")
	}
	if len(parts) == 1 {
		return s, nil
	}
	return "(re.++ " + strings.Join(parts, " ") + ")", nil
}

func registerRegexpIntrinsics(reg func(string, intrinsicFn)) {
	compile := func(w *World, pattern Value) (*Opaque, error) {
		p := concStr(w, pattern, "regexp pattern")
		re, err := regexp.Compile(p)
		if err != nil {
			return nil, err
		}
		return &Opaque{kind: "regexp", v: re}, nil
	}
	reg("regexp.MustCompile", func(w *World, th *Thread, fn *ssa.Function, args []Value) Value {
		op, err := compile(w, args[0])
		if err != nil {
			panic(goPanic{"regexp: Compile: " + err.Error()})
		}
		return op
	})
	reg("regexp.Compile", func(w *World, th *Thread, fn *ssa.Function, args []Value) Value {
		op, err := compile(w, args[0])
		if err != nil {
			return Tuple{(*Opaque)(nil), w.eng.makeError(w, err.Error(), nil)}
		}
		return Tuple{op, Iface{}}
	})
	reg("(*regexp.Regexp).MatchString", func(w *World, th *Thread, fn *ssa.Function, args []Value) Value {
		re := args[0].(*Opaque).v.(*regexp.Regexp)
		if s, ok := normStr(args[1]).(string); ok {
			return re.MatchString(s)
		}
		rl, err := patternToRegLan(re.String())
		if err != nil {
			panic(w.unsupported("regexp %q on symbolic string: %v", re.String(), err))
		}
		w.stubsSeen["regexp->RegLan:"+re.String()] = true
		return w.tf.def(sortBool, "(str.in_re "+w.strTerm(args[1]).S+" "+rl+")")
	})
	reg("(*regexp.Regexp).FindAllStringSubmatch", func(w *World, th *Thread, fn *ssa.Function, args []Value) Value {
		re := args[0].(*Opaque).v.(*regexp.Regexp)
		s, ok := normStr(args[1]).(string)
		n, ok2 := args[2].(int64)
		if !ok || !ok2 {
			panic(w.unsupported("regexp submatch extraction on a symbolic string"))
		}
		res := re.FindAllStringSubmatch(s, int(n))
		if res == nil {
			return Slice{nil: true}
		}
		out := make([]Value, len(res))
		for i, m := range res {
			out[i] = mkStrSlice(m)
		}
		return Slice{a: out}
	})
	reg("(*regexp.Regexp).FindStringSubmatch", func(w *World, th *Thread, fn *ssa.Function, args []Value) Value {
		re := args[0].(*Opaque).v.(*regexp.Regexp)
		s, ok := normStr(args[1]).(string)
		if !ok {
			panic(w.unsupported("regexp submatch extraction on a symbolic string"))
		}
		return mkStrSlice(re.FindStringSubmatch(s))
	})
	reg("(*regexp.Regexp).String", func(w *World, th *Thread, fn *ssa.Function, args []Value) Value {
		return args[0].(*Opaque).v.(*regexp.Regexp).String()
	})
	reg("(*regexp.Regexp).ReplaceAllString", func(w *World, th *Thread, fn *ssa.Function, args []Value) Value {
		re := args[0].(*Opaque).v.(*regexp.Regexp)
		s, ok := normStr(args[1]).(string)
		r, ok2 := normStr(args[2]).(string)
		if !ok || !ok2 {
			panic(w.unsupported("regexp replace on a symbolic string"))
		}
		return re.ReplaceAllString(s, r)
	})
}
