package main

import (
	"fmt"
	"sort"
	"time"
)

// concreteReplay re-executes a violation deterministically in the interpreter with the model's
// concrete inputs and the recorded scheduling / choice decisions.
func (e *Engine) concreteReplay(v *Violation) bool {
	sol, err := NewSolver(solverBin(), e.cfg.SolverMs)
	if err != nil {
		return false
	}
	defer sol.Close()
	var prefix []Decision
	for _, d := range v.Path {
		if d.K != DBranch {
			prefix = append(prefix, d)
		}
	}
	e2 := *e
	e2.concreteInputs = v.Inputs
	pr := e2.runPath(sol, prefix, false)
	for _, x := range pr.violations {
		if x.Label == v.Label && x.Kind == v.Kind {
			return true
		}
	}
	return false
}

func buildEvidence(prop, tier string, seed int, pc propConfig, outs []entryOut, loadT, wall time.Duration, violations, replays int, known []string) map[string]any {
	paths, nodes, decisions, queries, unknown, steps, sched := 0, 0, 0, 0, 0, 0, 0
	var solver time.Duration
	funcs := map[string]string{}
	stubs := map[string]bool{}
	var samples []any
	var entries []any
	complete := true
	for _, o := range outs {
		r := o.res
		paths += r.Paths
		nodes += r.TreeNodes
		decisions += r.Decisions
		queries += r.Queries
		unknown += r.Unknown
		steps += r.Steps
		sched += r.SchedPoints
		solver += r.SolverTime
		for f, p := range r.Funcs {
			funcs[f] = p
		}
		for s := range r.Stubs {
			stubs[s] = true
		}
		for i, s := range r.Samples {
			if i < 3 {
				samples = append(samples, map[string]any{"entry": o.es.name, "path": s})
			}
		}
		if !r.Complete {
			complete = false
		}
		reached := []string{}
		for l := range r.Reached {
			reached = append(reached, l)
		}
		sort.Strings(reached)
		entries = append(entries, map[string]any{
			"entry": o.es.name, "package": o.es.file.pkgDir, "paths": r.Paths, "path_ends": r.EndKinds, "tree_nodes": r.TreeNodes,
			"queries": r.Queries, "sat": r.Sat, "unsat": r.Unsat, "unknown": r.Unknown, "solver_errors": r.SolverErrors,
			"solver_s": round1(r.SolverTime.Seconds()), "wall_s": round1(r.Wall.Seconds()), "max_threads": r.MaxThreads, "sched_points": r.SchedPoints,
			"bounds": o.cfg.Raw, "unwind": o.cfg.Unwind, "preempt": o.cfg.Preempt, "sleep_sets_respect_preemption_bound": o.cfg.SleepBound, "timers": o.cfg.Timers, "reached": reached,
			"inconclusive": r.Inconclusive, "exhausted_within_bounds": r.Complete, "violations": len(r.Violations),
			"sample_paths_rerun_natively_and_agreeing": r.Conformed,
		})
	}
	var fl []string
	for f, p := range funcs {
		fl = append(fl, f+" @"+p)
	}
	sort.Strings(fl)
	var sl []string
	for s := range stubs {
		sl = append(sl, s)
	}
	sort.Strings(sl)
	if pc.Assumptions == nil {
		pc.Assumptions = []string{}
	}
	if len(samples) == 0 {
		samples = append(samples, map[string]any{"note": "no completed path"})
	}
	cov := map[string]any{
		"explanation": pc.Explanation + fmt.Sprintf(" [this run: %d symbolic paths over %d execution-tree nodes, %d solver queries (%d unknown), %d interpreted SSA instructions, %d functions of the real code encoded; exploration %s]",
			paths, nodes, queries, unknown, steps, len(fl), map[bool]string{true: "exhausted the worklist within the stated bounds", false: "stopped early (budget or violation)"}[complete]),
		"states":                        nodes,
		"transitions":                   decisions,
		"traces_validated_against_impl": replays,
		"samples":                       samples,
		"evaluations":                   paths,
		"distinct_nontrivial":           paths,
		"rule":                          "one evaluation = one feasible symbolic path (distinct path condition / schedule) of the harness through the real SSA; every path is distinct by construction of the decision tree",
		"exhaustive":                    complete,
		"functions_encoded":             fl,
		"stubs":                         sl,
		"entries":                       entries,
		"queries":                       queries,
		"solver_s":                      round1(solver.Seconds()),
		"load_s":                        round1(loadT.Seconds()),
		"outside_claim":                 pc.Outside,
		"known_findings_reported":       known,
	}
	if cov["transitions"].(int) < 1 {
		cov["transitions"] = 1
	}
	return map[string]any{
		"property_id": prop, "tier": tier, "seed": seed, "level": pc.Level, "coverage": cov,
		"assumptions": pc.Assumptions, "wall_s": round1(wall.Seconds()), "violations": violations,
	}
}

func round1(f float64) float64 { return float64(int(f*10+0.5)) / 10 }
