package main

import (
	"fmt"
	"go/types"
	"sort"
	"strings"

	"golang.org/x/tools/go/ssa"
)

// Value is the interpreter's dynamic value:
//
//	bool | *Term(Bool)
//	int64 (every integer kind, normalised to its type) | *Term(BV w)
//	float64 | *Term(FP)
//	string | BStr (concrete length, symbolic bytes) | *Term(String)
//	Ptr (*Value; nil pointer = Ptr(nil))
//	Struct, Array ([]Value), Slice, *Map, Iface, *Chan, *Closure, *ssa.Function, *ssa.Builtin, Tuple
//	*Opaque (native object owned by an intrinsic model)
type Value = any

type Ptr = *Value
type Struct []Value
type Array []Value
type Tuple []Value

// BStr is a string of concrete length whose bytes may be symbolic (int64 or *Term BV8).
type BStr []Value

type Slice struct {
	a   []Value // a[0:len] are the elements, cap(a) is the capacity
	nil bool
	sym *Term // []byte view of a symbolic string of unknown length (read-only: len, [:], string())
}

type Iface struct {
	t types.Type // nil => nil interface
	v Value
}

type Closure struct {
	fn  *ssa.Function
	env []Value
}

type Opaque struct {
	kind string
	v    any
}

// Bound method closure produced by MakeClosure on a $bound wrapper are ordinary closures.

type mapEntry struct {
	k, v Value
}

type Map struct {
	kt, vt  types.Type
	entries []*mapEntry
	idx     map[any]*mapEntry // concrete hashable keys
	symKeys int               // number of entries with non-hashable (symbolic) keys
	id      int
	// race detection
	lastWriter int
	lastWVC    []int
}

type Chan struct {
	id     int
	cap    int
	buf    []Value
	closed bool
	et     types.Type
	// happens-before: vector clock carried by each buffered element and by close
	bufVC   [][]int
	closeVC []int
}

func isNilPtr(v Value) bool {
	p, ok := v.(Ptr)
	return ok && p == nil
}

// hashKey returns a Go-comparable key for concrete values usable as map keys.
func hashKey(v Value) (any, bool) {
	switch x := v.(type) {
	case bool, int64, string, float64:
		return x, true
	case Ptr:
		return x, true
	case *Map:
		return x, true
	case *Chan:
		return x, true
	case *Opaque:
		return x, true
	case Iface:
		if x.t == nil {
			return "<niliface>", true
		}
		k, ok := hashKey(x.v)
		if !ok {
			return nil, false
		}
		return [2]any{typeKey(x.t), k}, true
	case Struct:
		var sb strings.Builder
		for _, f := range x {
			k, ok := hashKey(f)
			if !ok {
				return nil, false
			}
			fmt.Fprintf(&sb, "%T:%v|", k, k)
		}
		return "S{" + sb.String() + "}", true
	case Array:
		var sb strings.Builder
		for _, f := range x {
			k, ok := hashKey(f)
			if !ok {
				return nil, false
			}
			fmt.Fprintf(&sb, "%T:%v|", k, k)
		}
		return "A{" + sb.String() + "}", true
	case BStr:
		bs := make([]byte, len(x))
		for i, b := range x {
			c, ok := b.(int64)
			if !ok {
				return nil, false
			}
			bs[i] = byte(c)
		}
		return string(bs), true
	}
	return nil, false
}

var typeKeyCache = map[types.Type]string{}

func typeKey(t types.Type) string {
	// canonical string; types.TypeString is deterministic with package paths
	return types.TypeString(t, nil)
}

// zero returns the zero value of type t.
func zero(t types.Type) Value {
	switch t := t.(type) {
	case *types.Basic:
		if t.Kind() == types.UntypedNil {
			return Ptr(nil)
		}
		info := t.Info()
		switch {
		case info&types.IsBoolean != 0:
			return false
		case info&types.IsInteger != 0:
			return int64(0)
		case info&types.IsFloat != 0:
			return float64(0)
		case info&types.IsString != 0:
			return ""
		case t.Kind() == types.UnsafePointer:
			return Ptr(nil)
		case info&types.IsComplex != 0:
			return complex128(0)
		}
		panic(fmt.Sprintf("zero: basic %v", t))
	case *types.Pointer:
		return Ptr(nil)
	case *types.Struct:
		s := make(Struct, t.NumFields())
		for i := range s {
			s[i] = zero(t.Field(i).Type())
		}
		return s
	case *types.Array:
		a := make(Array, t.Len())
		for i := range a {
			a[i] = zero(t.Elem())
		}
		return a
	case *types.Named:
		return zero(t.Underlying())
	case *types.Alias:
		return zero(types.Unalias(t))
	case *types.Interface:
		return Iface{}
	case *types.Slice:
		return Slice{nil: true}
	case *types.Map:
		return (*Map)(nil)
	case *types.Chan:
		return (*Chan)(nil)
	case *types.Signature:
		return (*Closure)(nil)
	case *types.Tuple:
		if t.Len() == 1 {
			return zero(t.At(0).Type())
		}
		s := make(Tuple, t.Len())
		for i := range s {
			s[i] = zero(t.At(i).Type())
		}
		return s
	case *types.TypeParam:
		panic("zero: type parameter (generic function not instantiated)")
	}
	panic(fmt.Sprintf("zero: unexpected type %T %v", t, t))
}

// copyVal makes a deep copy of aggregate values (struct/array value semantics).
func copyVal(v Value) Value {
	switch x := v.(type) {
	case Struct:
		n := make(Struct, len(x))
		for i, f := range x {
			n[i] = copyVal(f)
		}
		return n
	case Array:
		n := make(Array, len(x))
		for i, f := range x {
			n[i] = copyVal(f)
		}
		return n
	}
	return v
}

// storeVal writes v into *addr preserving the identity of interior cells.
func storeVal(addr Ptr, v Value) {
	switch x := v.(type) {
	case Struct:
		if cur, ok := (*addr).(Struct); ok && len(cur) == len(x) {
			for i := range x {
				storeVal(&cur[i], x[i])
			}
			return
		}
		*addr = copyVal(x)
	case Array:
		if cur, ok := (*addr).(Array); ok && len(cur) == len(x) {
			for i := range x {
				storeVal(&cur[i], x[i])
			}
			return
		}
		*addr = copyVal(x)
	default:
		*addr = v
	}
}

func loadVal(addr Ptr) Value {
	return copyVal(*addr)
}

func newMap(kt, vt types.Type) *Map {
	return &Map{kt: kt, vt: vt, idx: map[any]*mapEntry{}}
}

func (m *Map) Len() int {
	if m == nil {
		return 0
	}
	return len(m.entries)
}

func (m *Map) removeEntry(e *mapEntry) {
	for i, x := range m.entries {
		if x == e {
			m.entries = append(m.entries[:i:i], m.entries[i+1:]...)
			break
		}
	}
	if k, ok := hashKey(e.k); ok {
		delete(m.idx, k)
	} else {
		m.symKeys--
	}
}

func (m *Map) addEntry(k, v Value) *mapEntry {
	e := &mapEntry{k: k, v: v}
	m.entries = append(m.entries, e)
	if hk, ok := hashKey(k); ok {
		m.idx[hk] = e
	} else {
		m.symKeys++
	}
	return e
}

// sortedConcreteKeys is used for deterministic printing.
func (m *Map) sortedConcreteKeys() []string {
	var ks []string
	for _, e := range m.entries {
		ks = append(ks, fmt.Sprint(e.k))
	}
	sort.Strings(ks)
	return ks
}

// show renders a value for traces and diagnostics.
func show(v Value) string {
	return showDepth(v, 0)
}

func showDepth(v Value, d int) string {
	if d > 4 {
		return "…"
	}
	switch x := v.(type) {
	case nil:
		return "<nil>"
	case bool, int64, float64:
		return fmt.Sprint(x)
	case string:
		return fmt.Sprintf("%q", x)
	case *Term:
		return "$" + x.S
	case BStr:
		var sb strings.Builder
		sb.WriteString("b\"")
		for _, b := range x {
			if c, ok := b.(int64); ok {
				sb.WriteByte(byte(c))
			} else {
				sb.WriteString("{" + b.(*Term).S + "}")
			}
		}
		sb.WriteString("\"")
		return sb.String()
	case Ptr:
		if x == nil {
			return "nil"
		}
		return "&" + showDepth(*x, d+1)
	case Struct:
		parts := make([]string, len(x))
		for i, f := range x {
			parts[i] = showDepth(f, d+1)
		}
		return "{" + strings.Join(parts, " ") + "}"
	case Array:
		parts := make([]string, len(x))
		for i, f := range x {
			parts[i] = showDepth(f, d+1)
		}
		return "[" + strings.Join(parts, " ") + "]"
	case Slice:
		if x.nil {
			return "[]nil"
		}
		parts := make([]string, len(x.a))
		for i, f := range x.a {
			parts[i] = showDepth(f, d+1)
		}
		return "[" + strings.Join(parts, " ") + "]"
	case *Map:
		if x == nil {
			return "map(nil)"
		}
		parts := make([]string, 0, len(x.entries))
		for _, e := range x.entries {
			parts = append(parts, showDepth(e.k, d+1)+":"+showDepth(e.v, d+1))
		}
		return "map[" + strings.Join(parts, " ") + "]"
	case Iface:
		if x.t == nil {
			return "iface(nil)"
		}
		return "iface(" + types.TypeString(x.t, func(p *types.Package) string { return p.Name() }) + ":" + showDepth(x.v, d+1) + ")"
	case *Chan:
		if x == nil {
			return "chan(nil)"
		}
		return fmt.Sprintf("chan#%d", x.id)
	case *Closure:
		if x == nil {
			return "func(nil)"
		}
		return "closure:" + x.fn.String()
	case *ssa.Function:
		return "func:" + x.String()
	case *ssa.Builtin:
		return "builtin:" + x.Name()
	case Tuple:
		parts := make([]string, len(x))
		for i, f := range x {
			parts[i] = showDepth(f, d+1)
		}
		return "(" + strings.Join(parts, ", ") + ")"
	case *Opaque:
		if x == nil {
			return "opaque(nil)"
		}
		return "opaque:" + x.kind
	}
	return fmt.Sprintf("%T", v)
}
