package main

import (
	"fmt"
	"go/constant"
	"go/token"
	"go/types"
	"math"
	"strconv"
	"strings"

	"golang.org/x/tools/go/ssa"
)

type intInfo struct {
	w      int
	signed bool
}

func basicOf(t types.Type) *types.Basic {
	b, _ := t.Underlying().(*types.Basic)
	return b
}

func intInfoOf(t types.Type) (intInfo, bool) {
	b := basicOf(t)
	if b == nil {
		return intInfo{}, false
	}
	switch b.Kind() {
	case types.Int, types.Int64, types.UntypedInt, types.UntypedRune:
		return intInfo{64, true}, true
	case types.Int8:
		return intInfo{8, true}, true
	case types.Int16:
		return intInfo{16, true}, true
	case types.Int32:
		return intInfo{32, true}, true
	case types.Uint, types.Uint64, types.Uintptr:
		return intInfo{64, false}, true
	case types.Uint8:
		return intInfo{8, false}, true
	case types.Uint16:
		return intInfo{16, false}, true
	case types.Uint32:
		return intInfo{32, false}, true
	}
	return intInfo{}, false
}

// norm wraps a concrete integer to the width/signedness of its type.
func (ii intInfo) norm(v int64) int64 {
	switch ii.w {
	case 64:
		return v
	case 32:
		if ii.signed {
			return int64(int32(v))
		}
		return int64(uint32(v))
	case 16:
		if ii.signed {
			return int64(int16(v))
		}
		return int64(uint16(v))
	case 8:
		if ii.signed {
			return int64(int8(v))
		}
		return int64(uint8(v))
	}
	return v
}

func isFloatType(t types.Type) bool {
	b := basicOf(t)
	return b != nil && b.Info()&types.IsFloat != 0
}
func isStringType(t types.Type) bool {
	b := basicOf(t)
	return b != nil && b.Info()&types.IsString != 0
}
func isBoolType(t types.Type) bool {
	b := basicOf(t)
	return b != nil && b.Info()&types.IsBoolean != 0
}

// ---- term builders on World -------------------------------------------------------------------

func (w *World) intTerm(v Value, ii intInfo) *Term {
	switch x := v.(type) {
	case *Term:
		return x
	case int64:
		return &Term{Sort: sortBV(ii.w), S: bvLit(uint64(x), ii.w)}
	}
	panic(w.unsupported("intTerm of %T", v))
}

func (w *World) boolTermOf(v Value) *Term {
	switch x := v.(type) {
	case *Term:
		return x
	case bool:
		return boolTerm(x)
	}
	panic(w.unsupported("boolTerm of %T", v))
}

func (w *World) fpTerm(v Value) *Term {
	switch x := v.(type) {
	case *Term:
		return x
	case float64:
		return &Term{Sort: sortFP, S: fpLit(x)}
	}
	panic(w.unsupported("fpTerm of %T", v))
}

func (w *World) strTerm(v Value) *Term {
	switch x := v.(type) {
	case *Term:
		return x
	case string:
		return &Term{Sort: sortString, S: strLit(x)}
	case BStr:
		if len(x) == 0 {
			return &Term{Sort: sortString, S: `""`}
		}
		// group concrete runs
		var parts []string
		var run []byte
		flush := func() {
			if len(run) > 0 {
				parts = append(parts, strLit(string(run)))
				run = nil
			}
		}
		for _, b := range x {
			if c, ok := b.(int64); ok {
				run = append(run, byte(c))
			} else {
				flush()
				parts = append(parts, "(str.from_code (bv2nat "+b.(*Term).S+"))")
			}
		}
		flush()
		if len(parts) == 1 {
			return w.tf.def(sortString, parts[0])
		}
		return w.tf.def(sortString, "(str.++ "+strings.Join(parts, " ")+")")
	}
	panic(w.unsupported("strTerm of %T", v))
}

func (w *World) not(v Value) Value {
	switch x := v.(type) {
	case bool:
		return !x
	case *Term:
		if x == termTrue {
			return false
		}
		if x == termFalse {
			return true
		}
		if x.neg != nil {
			return x.neg
		}
		n := w.tf.def(sortBool, "(not "+x.S+")")
		n.neg = x
		x.neg = n
		return n
	}
	panic(w.unsupported("not of %T", v))
}

func (w *World) and(a, b Value) Value {
	if x, ok := a.(bool); ok {
		if !x {
			return false
		}
		return b
	}
	if y, ok := b.(bool); ok {
		if !y {
			return false
		}
		return a
	}
	return w.tf.def(sortBool, "(and "+a.(*Term).S+" "+b.(*Term).S+")")
}

func (w *World) or(a, b Value) Value {
	if x, ok := a.(bool); ok {
		if x {
			return true
		}
		return b
	}
	if y, ok := b.(bool); ok {
		if y {
			return true
		}
		return a
	}
	return w.tf.def(sortBool, "(or "+a.(*Term).S+" "+b.(*Term).S+")")
}

// ite on scalar values of the same kind.
func (w *World) ite(c Value, a, b Value, t types.Type) Value {
	if cb, ok := c.(bool); ok {
		if cb {
			return a
		}
		return b
	}
	ct := c.(*Term)
	if ii, ok := intInfoOf(t); ok {
		return w.tf.def(sortBV(ii.w), "(ite "+ct.S+" "+w.intTerm(a, ii).S+" "+w.intTerm(b, ii).S+")")
	}
	if isBoolType(t) {
		return w.tf.def(sortBool, "(ite "+ct.S+" "+w.boolTermOf(a).S+" "+w.boolTermOf(b).S+")")
	}
	if isStringType(t) {
		return w.tf.def(sortString, "(ite "+ct.S+" "+w.strTerm(a).S+" "+w.strTerm(b).S+")")
	}
	if isFloatType(t) {
		return w.tf.def(sortFP, "(ite "+ct.S+" "+w.fpTerm(a).S+" "+w.fpTerm(b).S+")")
	}
	panic(w.unsupported("ite on type %v", t))
}

// ---- binary operations ------------------------------------------------------------------------

func isSym(v Value) bool {
	switch x := v.(type) {
	case *Term:
		return true
	case BStr:
		for _, b := range x {
			if _, ok := b.(*Term); ok {
				return true
			}
		}
	}
	return false
}

func (w *World) binop(op token.Token, t types.Type, x, y Value) Value {
	// t is the operand type (of x)
	switch op {
	case token.EQL:
		return w.equals(t, x, y)
	case token.NEQ:
		return w.not(w.equals(t, x, y))
	}
	if ii, ok := intInfoOf(t); ok {
		return w.intBinop(op, ii, x, y)
	}
	if isFloatType(t) {
		return w.floatBinop(op, x, y)
	}
	if isStringType(t) {
		return w.stringBinop(op, x, y)
	}
	if isBoolType(t) {
		switch op {
		case token.AND, token.LAND:
			return w.and(x, y)
		case token.OR, token.LOR:
			return w.or(x, y)
		}
	}
	panic(w.unsupported("binop %v on %v", op, t))
}

// scaledTerm records that a term is base*k for a duration made by the time model (milliseconds * 1e6); comparing
// it with a constant is then done on the base, which spares the solver a 64-bit multiplication. Sound because the
// instants of the time model lie between 2001 and 2100, so such products never overflow.
type scaledTerm struct {
	base Value
	k    int64
}

func (w *World) scale(base Value, k int64) Value {
	v := w.binop(token.MUL, i64, base, k)
	if t, ok := v.(*Term); ok {
		sc, _ := w.userData["scaled"].(map[*Term]scaledTerm)
		if sc == nil {
			sc = map[*Term]scaledTerm{}
			w.userData["scaled"] = sc
		}
		sc[t] = scaledTerm{base, k}
	}
	return v
}

func floorDiv(a, k int64) int64 {
	q := a / k
	if a%k != 0 && (a < 0) != (k < 0) {
		q--
	}
	return q
}

// scaledCompare rewrites (base*k op c) to a comparison of base with a constant, k > 0.
func (w *World) scaledCompare(op token.Token, ii intInfo, x, y Value) (Value, bool) {
	sc, _ := w.userData["scaled"].(map[*Term]scaledTerm)
	if sc == nil || !ii.signed || ii.w != 64 {
		return nil, false
	}
	if xt, ok := x.(*Term); ok {
		if s, ok := sc[xt]; ok && s.k > 0 {
			if c, ok := y.(int64); ok {
				switch op {
				case token.LSS: // b*k < c  <=>  b < ceil(c/k)  <=>  b <= floor((c-1)/k)
					return w.intBinop(token.LEQ, ii, s.base, floorDiv(c-1, s.k)), true
				case token.LEQ:
					return w.intBinop(token.LEQ, ii, s.base, floorDiv(c, s.k)), true
				case token.GTR:
					return w.intBinop(token.GTR, ii, s.base, floorDiv(c, s.k)), true
				case token.GEQ:
					return w.intBinop(token.GTR, ii, s.base, floorDiv(c-1, s.k)), true
				}
			}
			if yt, ok := y.(*Term); ok {
				if s2, ok := sc[yt]; ok && s2.k == s.k {
					switch op {
					case token.LSS, token.LEQ, token.GTR, token.GEQ:
						return w.intBinop(op, ii, s.base, s2.base), true
					}
				}
			}
		}
	}
	if yt, ok := y.(*Term); ok {
		if _, isScaled := sc[yt]; isScaled {
			if _, ok := x.(int64); ok {
				flip := map[token.Token]token.Token{token.LSS: token.GTR, token.LEQ: token.GEQ, token.GTR: token.LSS, token.GEQ: token.LEQ}
				if f, ok := flip[op]; ok {
					return w.scaledCompare(f, ii, y, x)
				}
			}
		}
	}
	return nil, false
}

func (w *World) intBinop(op token.Token, ii intInfo, x, y Value) Value {
	if op == token.LSS || op == token.LEQ || op == token.GTR || op == token.GEQ {
		if v, ok := w.scaledCompare(op, ii, x, y); ok {
			return v
		}
	}
	xc, xok := x.(int64)
	yc, yok := y.(int64)
	if xok && yok {
		switch op {
		case token.ADD:
			return ii.norm(xc + yc)
		case token.SUB:
			return ii.norm(xc - yc)
		case token.MUL:
			return ii.norm(xc * yc)
		case token.QUO:
			if yc == 0 {
				panic(goPanic{"runtime error: integer divide by zero"})
			}
			if ii.signed {
				return ii.norm(xc / yc)
			}
			return ii.norm(int64(uint64(xc) / uint64(yc)))
		case token.REM:
			if yc == 0 {
				panic(goPanic{"runtime error: integer divide by zero"})
			}
			if ii.signed {
				return ii.norm(xc % yc)
			}
			return ii.norm(int64(uint64(xc) % uint64(yc)))
		case token.AND:
			return ii.norm(xc & yc)
		case token.OR:
			return ii.norm(xc | yc)
		case token.XOR:
			return ii.norm(xc ^ yc)
		case token.AND_NOT:
			return ii.norm(xc &^ yc)
		case token.LSS:
			if ii.signed {
				return xc < yc
			}
			return uint64(xc) < uint64(yc)
		case token.LEQ:
			if ii.signed {
				return xc <= yc
			}
			return uint64(xc) <= uint64(yc)
		case token.GTR:
			if ii.signed {
				return xc > yc
			}
			return uint64(xc) > uint64(yc)
		case token.GEQ:
			if ii.signed {
				return xc >= yc
			}
			return uint64(xc) >= uint64(yc)
		}
		panic(w.unsupported("int binop %v", op))
	}
	xt, yt := w.intTerm(x, ii), w.intTerm(y, ii)
	bv := func(f string) Value {
		return w.tf.def(sortBV(ii.w), "("+f+" "+xt.S+" "+yt.S+")")
	}
	bl := func(fs, fu string) Value {
		f := fu
		if ii.signed {
			f = fs
		}
		return w.tf.def(sortBool, "("+f+" "+xt.S+" "+yt.S+")")
	}
	switch op {
	case token.ADD:
		return bv("bvadd")
	case token.SUB:
		return bv("bvsub")
	case token.MUL:
		return bv("bvmul")
	case token.QUO, token.REM:
		// division by zero panics
		zero := &Term{Sort: sortBV(ii.w), S: bvLit(0, ii.w)}
		if w.branch(w.tf.def(sortBool, "(= "+yt.S+" "+zero.S+")")) {
			panic(goPanic{"runtime error: integer divide by zero"})
		}
		if op == token.QUO {
			if ii.signed {
				return bv("bvsdiv")
			}
			return bv("bvudiv")
		}
		if ii.signed {
			return bv("bvsrem")
		}
		return bv("bvurem")
	case token.AND:
		return bv("bvand")
	case token.OR:
		return bv("bvor")
	case token.XOR:
		return bv("bvxor")
	case token.AND_NOT:
		return w.tf.def(sortBV(ii.w), "(bvand "+xt.S+" (bvnot "+yt.S+"))")
	case token.LSS:
		return bl("bvslt", "bvult")
	case token.LEQ:
		return bl("bvsle", "bvule")
	case token.GTR:
		return bl("bvsgt", "bvugt")
	case token.GEQ:
		return bl("bvsge", "bvuge")
	}
	panic(w.unsupported("sym int binop %v", op))
}

// shift: x has type t, y is an unsigned (or non-negative) shift count of type yt.
func (w *World) shift(op token.Token, t types.Type, x, y Value, yt types.Type) Value {
	ii, _ := intInfoOf(t)
	yi, _ := intInfoOf(yt)
	xc, xok := x.(int64)
	yc, yok := y.(int64)
	if xok && yok {
		if yi.signed && yc < 0 {
			panic(goPanic{"runtime error: negative shift amount"})
		}
		n := uint64(yc)
		if op == token.SHL {
			if n >= 64 {
				return int64(0)
			}
			return ii.norm(xc << n)
		}
		if ii.signed {
			if n >= 64 {
				n = 63
			}
			return ii.norm(xc >> n)
		}
		if n >= 64 {
			return int64(0)
		}
		return ii.norm(int64(uint64(xc) >> n))
	}
	xt := w.intTerm(x, ii)
	// bring the count to the width of x (counts are small in practice; saturate)
	var ytS string
	if yok {
		n := uint64(yc)
		if n > uint64(ii.w) {
			n = uint64(ii.w)
		}
		ytS = bvLit(n, ii.w)
	} else {
		yT := y.(*Term)
		switch {
		case yT.Sort.W == ii.w:
			ytS = yT.S
		case yT.Sort.W < ii.w:
			ytS = fmt.Sprintf("((_ zero_extend %d) %s)", ii.w-yT.Sort.W, yT.S)
		default:
			// saturate: if high bits set use width
			ytS = fmt.Sprintf("(ite (bvuge %s %s) %s ((_ extract %d 0) %s))", yT.S, bvLit(uint64(ii.w), yT.Sort.W), bvLit(uint64(ii.w), ii.w), ii.w-1, yT.S)
		}
	}
	f := "bvshl"
	if op == token.SHR {
		f = "bvlshr"
		if ii.signed {
			f = "bvashr"
		}
	}
	return w.tf.def(sortBV(ii.w), "("+f+" "+xt.S+" "+ytS+")")
}

func (w *World) floatBinop(op token.Token, x, y Value) Value {
	xc, xok := x.(float64)
	yc, yok := y.(float64)
	if xok && yok {
		switch op {
		case token.ADD:
			return xc + yc
		case token.SUB:
			return xc - yc
		case token.MUL:
			return xc * yc
		case token.QUO:
			return xc / yc
		case token.LSS:
			return xc < yc
		case token.LEQ:
			return xc <= yc
		case token.GTR:
			return xc > yc
		case token.GEQ:
			return xc >= yc
		}
		panic(w.unsupported("float binop %v", op))
	}
	xt, yt := w.fpTerm(x), w.fpTerm(y)
	switch op {
	case token.ADD:
		return w.tf.def(sortFP, "(fp.add RNE "+xt.S+" "+yt.S+")")
	case token.SUB:
		return w.tf.def(sortFP, "(fp.sub RNE "+xt.S+" "+yt.S+")")
	case token.MUL:
		return w.tf.def(sortFP, "(fp.mul RNE "+xt.S+" "+yt.S+")")
	case token.QUO:
		return w.tf.def(sortFP, "(fp.div RNE "+xt.S+" "+yt.S+")")
	case token.LSS:
		return w.tf.def(sortBool, "(fp.lt "+xt.S+" "+yt.S+")")
	case token.LEQ:
		return w.tf.def(sortBool, "(fp.leq "+xt.S+" "+yt.S+")")
	case token.GTR:
		return w.tf.def(sortBool, "(fp.gt "+xt.S+" "+yt.S+")")
	case token.GEQ:
		return w.tf.def(sortBool, "(fp.geq "+xt.S+" "+yt.S+")")
	}
	panic(w.unsupported("sym float binop %v", op))
}

func toBStr(v Value) (BStr, bool) {
	switch x := v.(type) {
	case string:
		b := make(BStr, len(x))
		for i := 0; i < len(x); i++ {
			b[i] = int64(x[i])
		}
		return b, true
	case BStr:
		return x, true
	}
	return nil, false
}

// normStr collapses an all-concrete BStr to a Go string.
func normStr(v Value) Value {
	if b, ok := v.(BStr); ok {
		if k, ok := hashKey(b); ok {
			return k.(string)
		}
	}
	return v
}

func (w *World) stringBinop(op token.Token, x, y Value) Value {
	xs, xok := x.(string)
	ys, yok := y.(string)
	if xok && yok {
		switch op {
		case token.ADD:
			return xs + ys
		case token.LSS:
			return xs < ys
		case token.LEQ:
			return xs <= ys
		case token.GTR:
			return xs > ys
		case token.GEQ:
			return xs >= ys
		}
	}
	if op == token.ADD {
		xb, ok1 := toBStr(x)
		yb, ok2 := toBStr(y)
		if ok1 && ok2 {
			r := make(BStr, 0, len(xb)+len(yb))
			r = append(r, xb...)
			r = append(r, yb...)
			return r
		}
		if xok && xs == "" {
			return y
		}
		if yok && ys == "" {
			return x
		}
		return w.tf.def(sortString, "(str.++ "+w.strTerm(x).S+" "+w.strTerm(y).S+")")
	}
	xt, yt := w.strTerm(x), w.strTerm(y)
	switch op {
	case token.LSS:
		return w.tf.def(sortBool, "(str.< "+xt.S+" "+yt.S+")")
	case token.LEQ:
		return w.tf.def(sortBool, "(str.<= "+xt.S+" "+yt.S+")")
	case token.GTR:
		return w.tf.def(sortBool, "(str.< "+yt.S+" "+xt.S+")")
	case token.GEQ:
		return w.tf.def(sortBool, "(str.<= "+yt.S+" "+xt.S+")")
	}
	panic(w.unsupported("string binop %v", op))
}

func (w *World) strEq(x, y Value) Value {
	xs, xok := x.(string)
	ys, yok := y.(string)
	if xok && yok {
		return xs == ys
	}
	xb, ok1 := toBStr(x)
	yb, ok2 := toBStr(y)
	if ok1 && ok2 {
		if len(xb) != len(yb) {
			return false
		}
		var r Value = true
		for i := range xb {
			r = w.and(r, w.intEq(xb[i], yb[i], 8))
			if r == false {
				return false
			}
		}
		return r
	}
	if tx, ok := x.(*Term); ok {
		if ty, ok := y.(*Term); ok && tx.S == ty.S {
			return true
		}
	}
	// texts produced by FormatInt/FormatUint/Itoa are compared through the numbers behind them
	if r, ok := w.strEqByOrigin(x, y); ok {
		return r
	}
	if r, ok := w.strEqByOrigin(y, x); ok {
		return r
	}
	// a BStr against a String term of unknown length
	return w.tf.def(sortBool, "(= "+w.strTerm(x).S+" "+w.strTerm(y).S+")")
}

func (w *World) originOf(v Value) (*Term, bool, bool) {
	t, ok := v.(*Term)
	if !ok {
		return nil, false, false
	}
	if o, ok := w.fmtOrigin[t.S]; ok {
		return o, false, true
	}
	if o, ok := w.fmtOriginS[t.S]; ok {
		return o, true, true
	}
	return nil, false, false
}

func (w *World) strEqByOrigin(x, y Value) (Value, bool) {
	ox, signed, ok := w.originOf(x)
	if !ok {
		return nil, false
	}
	if tx, ok := x.(*Term); ok {
		if ty, ok := y.(*Term); ok && tx.S == ty.S {
			return true, true
		}
	}
	if oy, signedY, ok := w.originOf(y); ok && signedY == signed && oy.Sort.W == ox.Sort.W {
		return w.intEq(ox, oy, ox.Sort.W), true
	}
	if c, ok := normStr(y).(string); ok {
		// a formatted number equals c only if c is the canonical decimal of a value of that width
		if signed {
			n, err := strconv.ParseInt(c, 10, ox.Sort.W)
			if err != nil || strconv.FormatInt(n, 10) != c {
				return false, true
			}
			return w.intEq(ox, n, ox.Sort.W), true
		}
		n, err := strconv.ParseUint(c, 10, ox.Sort.W)
		if err != nil || strconv.FormatUint(n, 10) != c {
			return false, true
		}
		return w.intEq(ox, int64(n), ox.Sort.W), true
	}
	return nil, false
}

func (w *World) intEq(x, y Value, width int) Value {
	xc, xok := x.(int64)
	yc, yok := y.(int64)
	if xok && yok {
		return xc == yc
	}
	ii := intInfo{w: width}
	xt, yt := w.intTerm(x, ii), w.intTerm(y, ii)
	if xt.S == yt.S {
		return true
	}
	return w.tf.def(sortBool, "(= "+xt.S+" "+yt.S+")")
}

// equals implements == on values of static type t (both operands have that type, or one is an
// interface / nil).
func (w *World) equals(t types.Type, x, y Value) Value {
	switch xv := x.(type) {
	case bool:
		if yb, ok := y.(bool); ok {
			return xv == yb
		}
		yt := y.(*Term)
		if xv {
			return yt
		}
		return w.not(yt)
	case int64:
		if ii, ok := intInfoOf(t); ok {
			return w.intEq(x, y, ii.w)
		}
		if yc, ok := y.(int64); ok {
			return xv == yc
		}
		return w.intEq(x, y, y.(*Term).Sort.W)
	case float64:
		if yf, ok := y.(float64); ok {
			return xv == yf
		}
		return w.tf.def(sortBool, "(fp.eq "+w.fpTerm(x).S+" "+w.fpTerm(y).S+")")
	case string, BStr:
		return w.strEq(x, y)
	case *Term:
		switch xv.Sort.K {
		case SBool:
			if yb, ok := y.(bool); ok {
				if yb {
					return xv
				}
				return w.not(xv)
			}
			return w.tf.def(sortBool, "(= "+xv.S+" "+y.(*Term).S+")")
		case SBV:
			return w.intEq(x, y, xv.Sort.W)
		case SString:
			return w.strEq(x, y)
		case SFP:
			return w.tf.def(sortBool, "(fp.eq "+xv.S+" "+w.fpTerm(y).S+")")
		}
	case Ptr:
		yp, ok := y.(Ptr)
		if !ok {
			return false
		}
		return xv == yp
	case *Map:
		ym, _ := y.(*Map)
		return xv == ym
	case *Chan:
		yc, _ := y.(*Chan)
		return xv == yc
	case Slice:
		// only comparison with nil is legal
		return xv.nil
	case *Closure:
		if xv == nil {
			return isNilFunc(y)
		}
		return isNilFunc(y) == false && x == y
	case *ssa.Function:
		if xv == nil {
			return isNilFunc(y)
		}
		return x == y
	case *ssa.Builtin:
		return x == y
	case *NativeFn:
		if xv == nil {
			return isNilFunc(y)
		}
		return x == y
	case *Opaque:
		yo, _ := y.(*Opaque)
		return xv == yo
	case Iface:
		yi, ok := y.(Iface)
		if !ok {
			panic(w.unsupported("iface == %T", y))
		}
		if xv.t == nil || yi.t == nil {
			return xv.t == nil && yi.t == nil
		}
		if !types.Identical(xv.t, yi.t) {
			return false
		}
		return w.equals(xv.t, xv.v, yi.v)
	case Struct:
		ys := y.(Struct)
		st, _ := t.Underlying().(*types.Struct)
		var r Value = true
		for i := range xv {
			var ft types.Type
			if st != nil {
				ft = st.Field(i).Type()
			}
			if st != nil && st.Field(i).Name() == "_" {
				continue
			}
			r = w.and(r, w.equals(ft, xv[i], ys[i]))
			if r == false {
				return false
			}
		}
		return r
	case Array:
		ya := y.(Array)
		var et types.Type
		if at, ok := t.Underlying().(*types.Array); ok {
			et = at.Elem()
		}
		var r Value = true
		for i := range xv {
			r = w.and(r, w.equals(et, xv[i], ya[i]))
			if r == false {
				return false
			}
		}
		return r
	}
	panic(w.unsupported("equals on %T / %T", x, y))
}

func isNilFunc(v Value) bool {
	switch x := v.(type) {
	case *Closure:
		return x == nil
	case *ssa.Function:
		return x == nil
	case *NativeFn:
		return x == nil
	case Ptr:
		return x == nil
	}
	return false
}

// ---- unary ------------------------------------------------------------------------------------

func (w *World) unop(op token.Token, t types.Type, x Value) Value {
	switch op {
	case token.NOT:
		return w.not(x)
	case token.SUB:
		if ii, ok := intInfoOf(t); ok {
			if c, ok := x.(int64); ok {
				return ii.norm(-c)
			}
			return w.tf.def(sortBV(ii.w), "(bvneg "+x.(*Term).S+")")
		}
		if c, ok := x.(float64); ok {
			return -c
		}
		return w.tf.def(sortFP, "(fp.neg "+x.(*Term).S+")")
	case token.XOR:
		ii, _ := intInfoOf(t)
		if c, ok := x.(int64); ok {
			return ii.norm(^c)
		}
		return w.tf.def(sortBV(ii.w), "(bvnot "+x.(*Term).S+")")
	}
	panic(w.unsupported("unop %v", op))
}

// ---- conversions ------------------------------------------------------------------------------

func (w *World) convInt(x Value, from, to intInfo) Value {
	if c, ok := x.(int64); ok {
		return to.norm(c)
	}
	t := x.(*Term)
	switch {
	case to.w == from.w:
		return t
	case to.w < from.w:
		return w.tf.def(sortBV(to.w), fmt.Sprintf("((_ extract %d 0) %s)", to.w-1, t.S))
	default:
		ext := "zero_extend"
		if from.signed {
			ext = "sign_extend"
		}
		return w.tf.def(sortBV(to.w), fmt.Sprintf("((_ %s %d) %s)", ext, to.w-from.w, t.S))
	}
}

func (w *World) conv(tDst, tSrc types.Type, x Value) Value {
	ut, us := tDst.Underlying(), tSrc.Underlying()
	// pointer/chan/map/func/struct etc: identity
	dInt, dIsInt := intInfoOf(tDst)
	sInt, sIsInt := intInfoOf(tSrc)
	switch {
	case dIsInt && sIsInt:
		return w.convInt(x, sInt, dInt)
	case dIsInt && isFloatType(tSrc):
		if f, ok := x.(float64); ok {
			if dInt.signed {
				return dInt.norm(int64(f))
			}
			return dInt.norm(int64(uint64(f)))
		}
		fn := "fp.to_ubv"
		if dInt.signed {
			fn = "fp.to_sbv"
		}
		return w.tf.def(sortBV(dInt.w), fmt.Sprintf("((_ %s %d) RTZ %s)", fn, dInt.w, x.(*Term).S))
	case isFloatType(tDst) && sIsInt:
		if c, ok := x.(int64); ok {
			if sInt.signed {
				return float64(c)
			}
			return float64(uint64(c))
		}
		fn := "to_fp_unsigned"
		if sInt.signed {
			fn = "to_fp"
		}
		return w.tf.def(sortFP, fmt.Sprintf("((_ %s 11 53) RNE %s)", fn, x.(*Term).S))
	case isFloatType(tDst) && isFloatType(tSrc):
		if f, ok := x.(float64); ok {
			if basicOf(tDst).Kind() == types.Float32 {
				return float64(float32(f))
			}
			return f
		}
		return x
	case isStringType(tDst) && sIsInt:
		if c, ok := x.(int64); ok {
			return string(rune(c))
		}
		panic(w.unsupported("string(symbolic int)"))
	case isStringType(tDst) && isStringType(tSrc):
		return x
	}
	switch ut := ut.(type) {
	case *types.Slice:
		if isStringType(tSrc) {
			// string -> []byte / []rune
			eb := basicOf(ut.Elem())
			if eb != nil && eb.Kind() == types.Uint8 {
				b, ok := toBStr(x)
				if !ok {
					if t, isT := x.(*Term); isT {
						return Slice{sym: t}
					}
					panic(w.unsupported("[]byte(symbolic-length string)"))
				}
				a := make([]Value, len(b))
				copy(a, b)
				return Slice{a: a}
			}
			if s, ok := normStr(x).(string); ok {
				rs := []rune(s)
				a := make([]Value, len(rs))
				for i, r := range rs {
					a[i] = int64(r)
				}
				return Slice{a: a}
			}
			panic(w.unsupported("[]rune(symbolic string)"))
		}
		return x
	case *types.Basic:
		if ut.Info()&types.IsString != 0 {
			if st, ok := us.(*types.Slice); ok {
				sl := x.(Slice)
				if sl.sym != nil {
					return sl.sym
				}
				eb := basicOf(st.Elem())
				if eb != nil && eb.Kind() == types.Uint8 {
					b := make(BStr, len(sl.a))
					copy(b, sl.a)
					return normStr(b)
				}
				// []rune
				var sb strings.Builder
				for _, r := range sl.a {
					c, ok := r.(int64)
					if !ok {
						panic(w.unsupported("string([]rune symbolic)"))
					}
					sb.WriteRune(rune(c))
				}
				return sb.String()
			}
		}
		if ut.Kind() == types.UnsafePointer {
			return x
		}
	case *types.Pointer:
		return x
	}
	if _, ok := us.(*types.Basic); ok && us.(*types.Basic).Kind() == types.UnsafePointer {
		return x
	}
	panic(w.unsupported("conv %v -> %v", tSrc, tDst))
}

// constValue converts an ssa.Const to a Value.
func (w *World) constValue(c *ssa.Const) Value {
	if c.Value == nil {
		return zero(c.Type())
	}
	t := c.Type().Underlying()
	if b, ok := t.(*types.Basic); ok {
		info := b.Info()
		switch {
		case info&types.IsBoolean != 0:
			return constant.BoolVal(c.Value)
		case info&types.IsString != 0:
			if c.Value.Kind() == constant.String {
				return constant.StringVal(c.Value)
			}
			return string(rune(c.Int64()))
		case info&types.IsInteger != 0:
			ii, _ := intInfoOf(b)
			if ii.signed {
				return ii.norm(c.Int64())
			}
			return ii.norm(int64(c.Uint64()))
		case info&types.IsFloat != 0:
			return c.Float64()
		case info&types.IsComplex != 0:
			return c.Complex128()
		}
	}
	if _, ok := t.(*types.TypeParam); ok {
		panic(w.unsupported("const of type param"))
	}
	panic(w.unsupported("const %v of type %v", c, c.Type()))
}

// strLen returns len(s).
func (w *World) strLen(s Value) Value {
	switch x := s.(type) {
	case string:
		return int64(len(x))
	case BStr:
		return int64(len(x))
	case *Term:
		return w.tf.def(sortBV(64), "((_ int2bv 64) (str.len "+x.S+"))")
	}
	panic(w.unsupported("len of %T", s))
}

// strIndex returns s[i] as a uint8 value (bounds already checked by caller for concrete case).
func (w *World) strIndex(s Value, i Value) Value {
	ic, iok := i.(int64)
	switch x := s.(type) {
	case string:
		if iok {
			if ic < 0 || ic >= int64(len(x)) {
				panic(goPanic{fmt.Sprintf("runtime error: index out of range [%d] with length %d", ic, len(x))})
			}
			return int64(x[ic])
		}
	case BStr:
		if iok {
			if ic < 0 || ic >= int64(len(x)) {
				panic(goPanic{fmt.Sprintf("runtime error: index out of range [%d] with length %d", ic, len(x))})
			}
			return x[ic]
		}
	case *Term:
		if iok {
			// bounds check
			inb := w.tf.def(sortBool, fmt.Sprintf("(< %d (str.len %s))", ic, x.S))
			if ic < 0 || !w.branch(inb) {
				panic(goPanic{"runtime error: index out of range (string)"})
			}
			return w.tf.def(sortBV(8), fmt.Sprintf("((_ int2bv 8) (str.to_code (str.at %s %d)))", x.S, ic))
		}
	}
	// symbolic index: enumerate over concrete-length strings
	if b, ok := toBStr(s); ok {
		n := w.concretizeIndex(i, len(b))
		return b[n]
	}
	panic(w.unsupported("string index %T[%T]", s, i))
}

// strSlice returns s[lo:hi] (lo/hi may be nil for defaults).
func (w *World) strSlice(s Value, lo, hi Value) Value {
	n := w.strLen(s)
	if lo == nil {
		lo = int64(0)
	}
	if hi == nil {
		hi = n
	}
	lc, lok := lo.(int64)
	hc, hok := hi.(int64)
	if b, ok := toBStr(s); ok && lok && hok {
		if lc < 0 || hc > int64(len(b)) || lc > hc {
			panic(goPanic{fmt.Sprintf("runtime error: slice bounds out of range [%d:%d] with length %d", lc, hc, len(b))})
		}
		if str, ok := s.(string); ok {
			return str[lc:hc]
		}
		return normStr(b[lc:hc:hc])
	}
	if b, ok := toBStr(s); ok {
		// symbolic bounds over a concrete-length string: enumerate
		l := w.concretizeIndex(lo, len(b)+1)
		h := w.concretizeIndex(hi, len(b)+1)
		if l > h {
			panic(goPanic{"runtime error: slice bounds out of range"})
		}
		return normStr(b[l:h:h])
	}
	st := w.strTerm(s)
	ii := intInfo{64, true}
	lt, ht := w.intTerm(lo, ii), w.intTerm(hi, ii)
	// bounds: 0 <= lo <= hi <= len
	okc := w.tf.def(sortBool, fmt.Sprintf("(and (bvsle %s %s) (bvsle %s %s) (bvsle %s %s))", bvLit(0, 64), lt.S, lt.S, ht.S, ht.S, w.intTerm(n, ii).S))
	if !w.branch(okc) {
		panic(goPanic{"runtime error: slice bounds out of range (string)"})
	}
	return w.tf.def(sortString, fmt.Sprintf("(str.substr %s (bv2nat %s) (bv2nat (bvsub %s %s)))", st.S, lt.S, ht.S, lt.S))
}

// concretizeIndex forks over the feasible values 0..n-1 of an integer value; out-of-range panics.
func (w *World) concretizeIndex(i Value, n int) int {
	if c, ok := i.(int64); ok {
		if c < 0 || c >= int64(n) {
			panic(goPanic{fmt.Sprintf("runtime error: index out of range [%d] with length %d", c, n)})
		}
		return int(c)
	}
	t := i.(*Term)
	for k := 0; k < n; k++ {
		if w.branch(w.tf.def(sortBool, "(= "+t.S+" "+bvLit(uint64(k), t.Sort.W)+")")) {
			return k
		}
	}
	panic(goPanic{fmt.Sprintf("runtime error: index out of range [symbolic] with length %d", n)})
}

var _ = math.Inf
