package main

import (
	"fmt"
	"go/types"
	"sort"
	"strings"

	"golang.org/x/tools/go/ssa"
)

// ---- control-flow signals (Go panics inside the engine) ---------------------------------------

// goPanic is a runtime panic of the interpreted program raised by an engine primitive.
type goPanic struct{ msg string }

// unsupportedErr aborts the path as INCONCLUSIVE.
type unsupportedErr struct{ msg string }

// pathEnd terminates the current path.
type pathEnd struct {
	kind string // "assume", "done", "budget", "deadlock", "violation"
	msg  string
}

type DecKind byte

const (
	DBranch DecKind = 'b' // symbolic branch: val 1=true 0=false
	DChoose DecKind = 'c' // data choice
	DSched  DecKind = 's' // scheduler choice
)

type Decision struct {
	K DecKind
	V int
	N int // arity (0 for forced branches)
}

// Violation describes a failed assertion with its counterexample.
type Violation struct {
	Harness string            `json:"harness"`
	Kind    string            `json:"kind"` // assert | panic | deadlock | race
	Label   string            `json:"label"`
	Tier    string            `json:"tier,omitempty"` // tier of the run that found it (the native replay runs the harness in the same tier)
	Inputs  map[string]any    `json:"inputs"`
	Sched   []int             `json:"sched,omitempty"`
	Trace   []string          `json:"trace,omitempty"`
	Path    []Decision        `json:"-"`
	Notes   map[string]string `json:"notes,omitempty"`
	Known   string            `json:"known,omitempty"` // description of the matching known finding
}

type inputVar struct {
	name string
	term *Term
	kind string // bool,int8..,uint64,string,float64,bytes
	n    int    // for bytes
	conc any    // concrete value (for Choose)
}

// World is the state of one path execution.
type World struct {
	eng *Engine
	sol *Solver
	tf  TermFactory

	prefix []Decision
	pos    int
	trace  []Decision
	forks  [][]Decision // alternatives discovered on this path

	pc        []*Term
	inputs    []*inputVar
	nameCount map[string]int

	globals  map[*ssa.Global]Ptr
	initDone map[*ssa.Package]int // 1 running, 2 done

	threads  []*Thread
	cur      *Thread
	nextChan int
	nextMap  int

	syncObjs map[Ptr]*syncObj
	timers   []*timerObj
	onceMap  map[Ptr]*onceObj

	reached    map[string]bool
	violations []*Violation
	notes      []string
	log        []string // vrt.Trace output of this path
	steps      int
	vtime      int64 // virtual time (ns): advances to the deadline of a timer when the timer fires lazily
	preempts   int
	unknowns   int
	inconc     string
	funcsSeen  map[*ssa.Function]bool
	stubsSeen  map[string]bool

	userData     map[string]any // scratch for intrinsic models
	started      []*Thread
	lastPanicLoc string
	subs         []*subCtx
	knownTrue    map[string]bool
	fmtOrigin    map[string]*Term
	fmtOriginS   map[string]*Term // signed: FormatInt/Itoa
	noSchedObjs  map[*syncObj]bool
	inSummary    map[*ssa.Function]bool
	concrete     map[string]any // concrete re-execution: input values by name
}

func (w *World) unsupported(format string, args ...any) unsupportedErr {
	loc := ""
	if w.cur != nil && len(w.cur.frames) > 0 {
		fr := w.cur.frames[len(w.cur.frames)-1]
		loc = " in " + fr.fn.String() + fr.posString(w.eng)
		n := 0
		for i := len(w.cur.frames) - 2; i >= 0 && n < 6; i-- {
			f := w.cur.frames[i]
			loc += " < " + f.fn.String() + f.posString(w.eng)
			n++
		}
	}
	return unsupportedErr{fmt.Sprintf(format, args...) + loc}
}

func (w *World) assertPC(t *Term) {
	w.pc = append(w.pc, t)
	if w.knownTrue == nil {
		w.knownTrue = map[string]bool{}
	}
	w.knownTrue[t.S] = true
	w.sol.Send("(assert " + t.S + ")")
}

// branch decides a (possibly symbolic) condition, forking the path when both sides are feasible.
func (w *World) branch(c Value) bool {
	if b, ok := c.(bool); ok {
		return b
	}
	t := c.(*Term)
	if t == termTrue {
		return true
	}
	if t == termFalse {
		return false
	}
	if len(w.subs) > 0 {
		return w.subBranch(t)
	}
	nt := w.not(t).(*Term)
	// syntactic shortcut: the condition (or its negation) is already a conjunct of the path condition
	if w.knownTrue[t.S] {
		return true
	}
	if w.knownTrue[nt.S] {
		return false
	}
	if w.pos < len(w.prefix) {
		d := w.prefix[w.pos]
		if d.K != DBranch {
			panic(unsupportedErr{fmt.Sprintf("engine: replay desync at decision %d: expected %c got branch", w.pos, d.K)})
		}
		w.pos++
		w.trace = append(w.trace, d)
		if d.V == 1 {
			w.assertPC(t)
			return true
		}
		w.assertPC(nt)
		return false
	}
	w.pos++
	if len(w.trace) >= w.eng.cfg.MaxDecisions {
		panic(pathEnd{kind: "budget", msg: "max decisions"})
	}
	rT := w.sol.Check(t.S, false)
	if rT == "dead" {
		panic(unsupportedErr{"solver died"})
	}
	if rT == "unsat" {
		w.trace = append(w.trace, Decision{K: DBranch, V: 0})
		w.assertPC(nt)
		return false
	}
	if rT != "sat" {
		w.unknowns++
	}
	rF := w.sol.Check(nt.S, false)
	if rF == "dead" {
		panic(unsupportedErr{"solver died"})
	}
	if rF == "unsat" {
		w.trace = append(w.trace, Decision{K: DBranch, V: 1})
		w.assertPC(t)
		return true
	}
	if rF != "sat" {
		w.unknowns++
	}
	// both feasible: take true now, queue false
	alt := append(append([]Decision{}, w.trace...), Decision{K: DBranch, V: 0, N: 2})
	w.forks = append(w.forks, alt)
	w.trace = append(w.trace, Decision{K: DBranch, V: 1, N: 2})
	w.assertPC(t)
	return true
}

// choose makes an n-way nondeterministic choice (data or scheduling).
func (w *World) choose(n int, kind DecKind) int {
	if n <= 1 {
		return 0
	}
	if len(w.subs) > 0 {
		panic(w.unsupported("nondeterministic choice inside a summarised function"))
	}
	if w.pos < len(w.prefix) {
		d := w.prefix[w.pos]
		if d.K != kind || d.N != n {
			panic(unsupportedErr{fmt.Sprintf("engine: replay desync at decision %d: expected %c/%d got %c/%d", w.pos, d.K, d.N, kind, n)})
		}
		w.pos++
		w.trace = append(w.trace, d)
		return d.V
	}
	w.pos++
	if len(w.trace) >= w.eng.cfg.MaxDecisions {
		panic(pathEnd{kind: "budget", msg: "max decisions"})
	}
	for i := n - 1; i >= 1; i-- {
		alt := append(append([]Decision{}, w.trace...), Decision{K: kind, V: i, N: n})
		w.forks = append(w.forks, alt)
	}
	w.trace = append(w.trace, Decision{K: kind, V: 0, N: n})
	return 0
}

func (w *World) uniqueName(name string) string {
	if w.nameCount == nil {
		w.nameCount = map[string]int{}
	}
	k := w.nameCount[name]
	w.nameCount[name] = k + 1
	if k == 0 {
		return name
	}
	return fmt.Sprintf("%s#%d", name, k)
}

func (w *World) newInput(name, kind string, sort Sort) Value {
	nm := w.uniqueName(name)
	if w.concrete != nil {
		v := concreteInput(w.concrete[nm], kind)
		w.inputs = append(w.inputs, &inputVar{name: nm, kind: kind, conc: v})
		return v
	}
	t := w.tf.fresh(sort, nm)
	w.inputs = append(w.inputs, &inputVar{name: nm, term: t, kind: kind})
	return t
}

func concreteInput(raw any, kind string) Value {
	switch kind {
	case "bool":
		b, _ := raw.(bool)
		return b
	case "string":
		s, _ := raw.(string)
		return s
	case "float64":
		switch x := raw.(type) {
		case float64:
			return x
		}
		return float64(0)
	}
	var v int64
	switch x := raw.(type) {
	case int64:
		v = x
	case uint64:
		v = int64(x)
	case float64:
		v = int64(x)
	case string:
		var u uint64
		if _, err := fmt.Sscan(x, &u); err == nil {
			v = int64(u)
		} else {
			fmt.Sscan(x, &v)
		}
	}
	switch kind {
	case "int8":
		return int64(int8(v))
	case "int16":
		return int64(int16(v))
	case "int32":
		return int64(int32(v))
	case "uint8":
		return int64(uint8(v))
	case "uint16":
		return int64(uint16(v))
	case "uint32":
		return int64(uint32(v))
	}
	return v
}

// model extracts concrete input values under the current solver context (+extra assertion).
func (w *World) model(extra string) (map[string]any, bool) {
	w.sol.Push()
	defer w.sol.Pop()
	r := w.sol.Check(extra, true)
	if r != "sat" {
		return nil, false
	}
	res := map[string]any{}
	var names []string
	for _, in := range w.inputs {
		if in.term != nil {
			names = append(names, in.term.S)
		}
	}
	vals, err := w.sol.GetValues(names)
	if err != nil {
		return nil, false
	}
	for _, in := range w.inputs {
		if in.term == nil {
			res[in.name] = in.conc
			continue
		}
		raw := vals[in.term.S]
		switch in.term.Sort.K {
		case SBool:
			res[in.name] = raw == "true"
		case SBV:
			v, ok := parseBVValue(raw)
			if !ok {
				return nil, false
			}
			switch in.kind {
			case "int8":
				res[in.name] = int64(int8(v))
			case "int16":
				res[in.name] = int64(int16(v))
			case "int32":
				res[in.name] = int64(int32(v))
			case "int", "int64":
				res[in.name] = int64(v)
			default:
				res[in.name] = v
			}
		case SString:
			s, ok := parseStringValue(raw)
			if !ok {
				return nil, false
			}
			res[in.name] = s
		case SFP:
			f, ok := parseFPValue(raw)
			if !ok {
				return nil, false
			}
			res[in.name] = f
		}
	}
	return res, true
}

func (w *World) schedDecisions() []int {
	var s []int
	for _, d := range w.trace {
		if d.K == DSched {
			s = append(s, d.V)
		}
	}
	return s
}

func (w *World) reportViolation(kind, label, extra string) {
	if w.concrete != nil {
		w.violations = append(w.violations, &Violation{Harness: w.eng.cfg.Entry, Kind: kind, Label: label, Tier: w.eng.cfg.Tier})
		return
	}
	// known findings: look for a violation outside the listed failing inputs first
	knownDesc := ""
	var conj []string
	if extra != "" {
		conj = append(conj, extra)
	}
	matched := false
	for _, k := range w.eng.known {
		if k.Label != label || (k.Kind != "" && k.Kind != kind) {
			continue
		}
		matched = true
		knownDesc = k.What
		if len(k.WhenAny) > 0 {
			conj = append(conj, "(not "+w.whenAnySMT(k.WhenAny)+")")
		} else {
			conj = append(conj, "false")
		}
	}
	if matched {
		q := "(and " + strings.Join(conj, " ") + ")"
		if len(conj) == 1 {
			q = conj[0]
		}
		if _, ok := w.model(q); ok {
			extra = q
			knownDesc = "" // a failing input outside every listed finding
		}
	}
	inputs, ok := w.model(extra)
	if !ok {
		w.inconc = "no model for violation " + label
		return
	}
	defer func() {
		if knownDesc != "" {
			w.violations[len(w.violations)-1].Known = knownDesc
		}
	}()
	v := &Violation{Harness: w.eng.cfg.Entry, Kind: kind, Label: label, Tier: w.eng.cfg.Tier, Inputs: inputs, Sched: w.schedDecisions(),
		Path: append([]Decision{}, w.trace...)}
	if len(w.log) > 0 {
		v.Trace = append([]string{}, w.log...)
	}
	w.violations = append(w.violations, v)
}

// vAssert implements vrt.Assert.
func (w *World) vAssert(c Value, label string) {
	if len(w.subs) > 0 {
		panic(w.unsupported("Assert inside a summarised function"))
	}
	if b, ok := c.(bool); ok {
		if !b {
			w.reportViolation("assert", label, "")
			panic(pathEnd{kind: "violation", msg: label})
		}
		return
	}
	t := c.(*Term)
	nt := w.not(t).(*Term)
	r := w.sol.Check(nt.S, false)
	switch r {
	case "unsat":
		return
	case "sat":
		w.reportViolation("assert", label, nt.S)
		// continue under the assumption that the assertion held, if possible
		if w.sol.Check(t.S, false) == "unsat" {
			panic(pathEnd{kind: "violation", msg: label})
		}
		w.assertPC(t)
	case "dead":
		panic(unsupportedErr{"solver died on assertion " + label})
	default:
		w.unknowns++
		w.inconc = "solver " + r + " on assertion " + label
		w.assertPC(t)
	}
}

// vAssume implements vrt.Assume.
func (w *World) vAssume(c Value) {
	if len(w.subs) > 0 {
		panic(w.unsupported("Assume inside a summarised function"))
	}
	if b, ok := c.(bool); ok {
		if !b {
			panic(pathEnd{kind: "assume"})
		}
		return
	}
	t := c.(*Term)
	// if we are replaying a prefix no check is needed until the end of the prefix
	if w.pos < len(w.prefix) {
		w.assertPC(t)
		return
	}
	r := w.sol.Check(t.S, false)
	if r == "dead" {
		panic(unsupportedErr{"solver died"})
	}
	if r == "unsat" {
		panic(pathEnd{kind: "assume"})
	}
	if r != "sat" {
		w.unknowns++
	}
	w.assertPC(t)
}

// ---- globals & package initialisation ---------------------------------------------------------

func (w *World) globalAddr(g *ssa.Global) Ptr {
	if p, ok := w.globals[g]; ok {
		return p
	}
	if g.Pkg != nil {
		w.ensureInit(g.Pkg)
		if p, ok := w.globals[g]; ok {
			return p
		}
	}
	p := new(Value)
	*p = zero(g.Type().(*types.Pointer).Elem())
	w.globals[g] = p
	return p
}

var initDeny = map[string]bool{
	"errors": true, "internal/reflectlite": true, "internal/abi": true, "fmt": true, "strconv": false,
	"os": true, "syscall": true, "runtime": true, "reflect": true, "net": true, "os/signal": true,
	"internal/poll": true, "internal/godebug": true, "os/exec": true, "os/user": true, "crypto/rand": true,
	"net/http": true, "testing": true, "flag": true, "log": true, "time": true, "sync": true,
	"internal/cpu": true, "internal/bytealg": true, "crypto/tls": true, "crypto/x509": true, "math/rand": true,
	"internal/syscall/unix": true, "encoding/json": true, "regexp/syntax": true, "html": true, "mime": true,
	"golang.org/x/sys/unix": true, "golang.org/x/sys/cpu": true, "internal/testlog": true, "io/fs": false,
}

func (w *World) ensureInit(pkg *ssa.Package) {
	if w.initDone[pkg] != 0 {
		return
	}
	w.initDone[pkg] = 1
	path := pkg.Pkg.Path()
	// allocate all globals of the package first (zero)
	names := make([]string, 0, len(pkg.Members))
	for n := range pkg.Members {
		names = append(names, n)
	}
	sort.Strings(names)
	for _, n := range names {
		if g, ok := pkg.Members[n].(*ssa.Global); ok {
			if _, have := w.globals[g]; !have {
				p := new(Value)
				*p = zero(g.Type().(*types.Pointer).Elem())
				w.globals[g] = p
			}
		}
	}
	if initDeny[path] || w.eng.silenced(path) || w.eng.cfg.noInit(path) {
		w.initDone[pkg] = 2
		return
	}
	fn := pkg.Func("init")
	if fn == nil {
		w.initDone[pkg] = 2
		return
	}
	pkg.Build()
	w.callSync(fn, nil)
	w.initDone[pkg] = 2
}

// isInitFunc reports whether fn is a package initialiser (init or init#k).
func isPkgInit(fn *ssa.Function) bool {
	return fn.Pkg != nil && fn.Name() == "init" && fn.Signature.Recv() == nil && fn.Parent() == nil
}

func isExplicitInit(fn *ssa.Function) bool {
	return fn.Pkg != nil && strings.HasPrefix(fn.Name(), "init#") && fn.Parent() == nil
}

// whenAnySMT renders a known finding's input predicate over the inputs that exist on this path.
func (w *World) whenAnySMT(alts []map[string][]int64) string {
	byName := map[string]*inputVar{}
	for _, in := range w.inputs {
		byName[in.name] = in
	}
	var ors []string
	for _, alt := range alts {
		names := make([]string, 0, len(alt))
		for n := range alt {
			names = append(names, n)
		}
		sort.Strings(names)
		var ands []string
		ok := true
		for _, n := range names {
			in := byName[n]
			if in == nil {
				ok = false
				break
			}
			var eqs []string
			for _, v := range alt[n] {
				if in.term == nil {
					c, _ := in.conc.(int64)
					if c == v {
						eqs = append(eqs, "true")
					}
					continue
				}
				switch in.term.Sort.K {
				case SBV:
					eqs = append(eqs, "(= "+in.term.S+" "+bvLit(uint64(v), in.term.Sort.W)+")")
				case SBool:
					if v != 0 {
						eqs = append(eqs, in.term.S)
					} else {
						eqs = append(eqs, "(not "+in.term.S+")")
					}
				}
			}
			switch len(eqs) {
			case 0:
				ands = append(ands, "false")
			case 1:
				ands = append(ands, eqs[0])
			default:
				ands = append(ands, "(or "+strings.Join(eqs, " ")+")")
			}
		}
		if !ok {
			continue
		}
		switch len(ands) {
		case 0:
			ors = append(ors, "true")
		case 1:
			ors = append(ors, ands[0])
		default:
			ors = append(ors, "(and "+strings.Join(ands, " ")+")")
		}
	}
	switch len(ors) {
	case 0:
		return "false"
	case 1:
		return ors[0]
	}
	return "(or " + strings.Join(ors, " ") + ")"
}
