package main

import (
	"fmt"
	"math"
	"strconv"
	"strings"
)

// Sorts of SMT terms.
type SortKind int

const (
	SBool SortKind = iota
	SBV
	SString
	SFP
)

type Sort struct {
	K SortKind
	W int // bit width for SBV
}

func (s Sort) String() string {
	switch s.K {
	case SBool:
		return "Bool"
	case SBV:
		return fmt.Sprintf("(_ BitVec %d)", s.W)
	case SString:
		return "String"
	case SFP:
		return "(_ FloatingPoint 11 53)"
	}
	return "?"
}

var (
	sortBool   = Sort{K: SBool}
	sortString = Sort{K: SString}
	sortFP     = Sort{K: SFP}
)

func sortBV(w int) Sort { return Sort{K: SBV, W: w} }

// Term is a symbolic SMT value. S is either a literal, a declared constant or the name of a
// define-fun emitted to the solver of the current path (DAG sharing keeps strings short).
type Term struct {
	Sort Sort
	S    string
	// Optional negation cache for booleans.
	neg *Term
}

func (t *Term) String() string { return t.S }

// TermFactory creates named definitions in the solver scope of the current path.
type TermFactory struct {
	n     int
	emit  func(string) // sends a line to the solver
	nvars int
	cons  map[string]*Term // hash-consing: expression text -> term (per path)
}

func (f *TermFactory) def(sort Sort, expr string) *Term {
	if f.cons == nil {
		f.cons = map[string]*Term{}
	}
	if t, ok := f.cons[expr]; ok {
		return t
	}
	t := f.def0(sort, expr)
	f.cons[expr] = t
	return t
}

func (f *TermFactory) def0(sort Sort, expr string) *Term {
	if len(expr) < 24 {
		return &Term{Sort: sort, S: expr}
	}
	f.n++
	name := fmt.Sprintf("t!%d", f.n)
	f.emit(fmt.Sprintf("(define-fun %s () %s %s)", name, sort, expr))
	return &Term{Sort: sort, S: name}
}

func (f *TermFactory) fresh(sort Sort, name string) *Term {
	f.nvars++
	nm := smtSym(name)
	f.emit(fmt.Sprintf("(declare-const %s %s)", nm, sort))
	return &Term{Sort: sort, S: nm}
}

func smtSym(name string) string {
	ok := true
	for _, c := range name {
		if !(c >= 'a' && c <= 'z' || c >= 'A' && c <= 'Z' || c >= '0' && c <= '9' || c == '_' || c == '.' || c == '!') {
			ok = false
		}
	}
	if ok && len(name) > 0 && !(name[0] >= '0' && name[0] <= '9') {
		return name
	}
	return "|" + strings.ReplaceAll(strings.ReplaceAll(name, "|", "_"), "\\", "_") + "|"
}

func bvLit(v uint64, w int) string {
	if w%4 == 0 {
		mask := uint64(math.MaxUint64)
		if w < 64 {
			mask = (uint64(1) << uint(w)) - 1
		}
		return fmt.Sprintf("#x%0*x", w/4, v&mask)
	}
	mask := (uint64(1) << uint(w)) - 1
	return fmt.Sprintf("#b%0*b", w, v&mask)
}

func strLit(s string) string {
	var b strings.Builder
	b.WriteByte('"')
	for i := 0; i < len(s); i++ {
		c := s[i]
		switch {
		case c == '"':
			b.WriteString(`""`)
		case c >= 0x20 && c < 0x7f && c != '\\':
			b.WriteByte(c)
		default:
			fmt.Fprintf(&b, "\\u{%x}", c)
		}
	}
	b.WriteByte('"')
	return b.String()
}

func fpLit(f float64) string {
	bits := math.Float64bits(f)
	sign := bits >> 63
	exp := (bits >> 52) & 0x7ff
	man := bits & ((1 << 52) - 1)
	return fmt.Sprintf("(fp #b%b #b%011b #x%013x)", sign, exp, man)
}

var termTrue = &Term{Sort: sortBool, S: "true"}
var termFalse = &Term{Sort: sortBool, S: "false"}

func boolTerm(b bool) *Term {
	if b {
		return termTrue
	}
	return termFalse
}

// parse helpers for model values

func parseBVValue(s string) (uint64, bool) {
	s = strings.TrimSpace(s)
	if strings.HasPrefix(s, "#x") {
		v, err := strconv.ParseUint(s[2:], 16, 64)
		return v, err == nil
	}
	if strings.HasPrefix(s, "#b") {
		v, err := strconv.ParseUint(s[2:], 2, 64)
		return v, err == nil
	}
	if strings.HasPrefix(s, "(_ bv") {
		f := strings.Fields(strings.Trim(s, "()"))
		if len(f) >= 2 {
			v, err := strconv.ParseUint(strings.TrimPrefix(f[1], "bv"), 10, 64)
			return v, err == nil
		}
	}
	return 0, false
}

// parseStringValue decodes an SMT-LIB string literal (with \u{..} escapes and "" quoting).
func parseStringValue(s string) (string, bool) {
	s = strings.TrimSpace(s)
	if len(s) < 2 || s[0] != '"' || s[len(s)-1] != '"' {
		return "", false
	}
	s = s[1 : len(s)-1]
	var out []byte
	for i := 0; i < len(s); i++ {
		c := s[i]
		if c == '"' && i+1 < len(s) && s[i+1] == '"' {
			out = append(out, '"')
			i++
			continue
		}
		if c == '\\' && i+1 < len(s) && s[i+1] == 'u' {
			// \u{X..} or \uXXXX
			if i+2 < len(s) && s[i+2] == '{' {
				j := strings.IndexByte(s[i:], '}')
				if j > 0 {
					v, err := strconv.ParseUint(s[i+3:i+j], 16, 32)
					if err == nil {
						out = append(out, byte(v))
						i += j
						continue
					}
				}
			} else if i+5 < len(s) {
				v, err := strconv.ParseUint(s[i+2:i+6], 16, 32)
				if err == nil {
					out = append(out, byte(v))
					i += 5
					continue
				}
			}
		}
		if c == '\\' && i+1 < len(s) && s[i+1] == 'x' && i+3 < len(s) {
			v, err := strconv.ParseUint(s[i+2:i+4], 16, 32)
			if err == nil {
				out = append(out, byte(v))
				i += 3
				continue
			}
		}
		out = append(out, c)
	}
	return string(out), true
}

func parseFPValue(s string) (float64, bool) {
	s = strings.TrimSpace(s)
	// (fp #b0 #b10000000000 #x0000000000004)
	if strings.HasPrefix(s, "(fp ") {
		f := strings.Fields(strings.Trim(s, "()"))
		if len(f) == 4 {
			sg, ok1 := parseBVValue(f[1])
			ex, ok2 := parseBVValue(f[2])
			mn, ok3 := parseBVValue(f[3])
			if ok1 && ok2 && ok3 {
				return math.Float64frombits(sg<<63 | ex<<52 | mn), true
			}
		}
	}
	if strings.Contains(s, "+zero") {
		return 0, true
	}
	if strings.Contains(s, "-zero") {
		return math.Copysign(0, -1), true
	}
	if strings.Contains(s, "+oo") {
		return math.Inf(1), true
	}
	if strings.Contains(s, "-oo") {
		return math.Inf(-1), true
	}
	if strings.Contains(s, "NaN") {
		return math.NaN(), true
	}
	return 0, false
}
